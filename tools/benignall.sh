#!/bin/bash
# benignall.sh [pattern]: every stored behaviour-preserving refactoring (benign/*/refactor.diff,
# written by independent sub-agents and verified by them with differential tests against the
# original) must leave all 20 quick checks silent.
cd "$(dirname "$0")/.."
bad=0
for d in benign/${1:-*}/; do
  [ -f "$d/refactor.diff" ] || continue
  out=$(tools/benigneval.sh "$d/refactor.diff" 2>&1)
  if grep -q "benigneval: 0 check" <<<"$out"; then echo "$(basename $d): silent (20 checks)"; else bad=$((bad+1)); echo "$(basename $d): ALARM"; grep -v ": silent" <<<"$out"; fi
done
echo "benignall: $bad refactoring(s) raised an alarm"
[ $bad -eq 0 ]
