#!/usr/bin/env python3
"""Regenerates /verif/MANIFEST.json from the table below (the single place where claims are edited)."""
import json, sys

GO_ENV = "export GOFLAGS=-mod=mod GOPROXY=off GOSUMDB=off GOTOOLCHAIN=local"

# id -> (technique, level text, level note, design ref)
CLAIMS = {
 "C01": ("exhaustive enumeration + rapid PBT vs exact-rational FIRST model",
         "All 2 x 2,592 version/base combinations are decoded by each of the three decoders and compared with the FIRST base equations evaluated in exact rational arithmetic (complete enumeration, so for the finite score domain this is as strong as a check can be); token order, nil receivers and optional-metric decoration are explored by rapid (20k quick / 200k thorough) and by 64 hash-seeded presentation variants per combination in the thorough tier.",
         "Trusted: the reference tables/equations in harness/spec (written from the FIRST documents, self-tested against the documents' examples), Go's math/big, binding of codes to library constants by exported name.",
         "DESIGN.md section 6, C01"),
}

NOT_YET = "check not built yet in this commit (planned with the same technique; see DESIGN.md section 6)"

def main():
    checks = []
    for pid in sorted(CLAIMS):
        tech, text, note, ref = CLAIMS[pid]
        checks.append({
            "property_id": pid,
            "quick_cmd": f"./check {pid} quick",
            "thorough_cmd": f"./check {pid} thorough",
            "evidence_file": f"/verif/evidence/{pid}.json",
            "replay_cmd_template": f"./check {pid} --replay {{path}}",
            "engine": "pbt-harness",
            "level_claimed": {"category": "exploration", "text": text, "design_ref": ref},
            "level_note": note,
            "technique": tech,
        })
    na = [{"property_id": f"C{n:02d}", "reason": NOT_YET} for n in range(1, 21) if f"C{n:02d}" not in CLAIMS]
    m = {
        "version": 1,
        "setup_cmd": f"{GO_ENV}; cd /verif && mkdir -p bin .cache && (cd harness && go build -o ../bin/verifcheck ./cmd/check && go test -c -vet=off -o /dev/null ./props)",
        "hooks": {
            "guard": "verif",
            "enable": "no hooks are needed: every observation point is exported API; checks build /repo's working tree through a replace directive (go test -c in /verif/harness)",
            "baseline_off_cmd": f"{GO_ENV}; cd /repo && go test -vet=off -count=1 ./...",
            "source_commits": [],
            "add_only": True,
        },
        "engines": [{
            "name": "pbt-harness",
            "path": "/verif/harness",
            "serves_properties": sorted(CLAIMS),
            "kind_free_text": "Go test binary (pgregory.net/rapid v1.3.0 properties, complete enumerations of the finite scoring domains, native go fuzz targets) compiled against /repo's working tree; driver harness/cmd/check shards, merges evidence, replays saved cases",
        }],
        "checks": checks,
        "notes": "Exit codes: 0 held, 1 VIOLATION line + replay file, 2 inconclusive (build failure/timeout). VERIF_SEED selects the rapid / sampling seed (default 1). Known findings: /verif/known_findings.json.",
        "not_applicable": na,
    }
    json.dump(m, open("/verif/MANIFEST.json", "w"), indent=1)
    print("claimed:", ",".join(sorted(CLAIMS)), "| not claimed:", len(na))

main()
