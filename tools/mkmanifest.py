#!/usr/bin/env python3
"""Regenerates /verif/MANIFEST.json from the table below (the single place where claims are edited)."""
import json, sys

GO_ENV = "export GOFLAGS=-mod=mod GOPROXY=off GOSUMDB=off GOTOOLCHAIN=local"

# id -> (technique, level text, level note, design ref)
CLAIMS = {
 "C01": ("exhaustive enumeration + rapid PBT vs exact-rational FIRST model",
         "All 2 x 2,592 version/base combinations are decoded by each of the three decoders and compared with the FIRST base equations evaluated in exact rational arithmetic (a complete enumeration of the finite score domain); token order, nil receivers and optional-metric decoration are explored by rapid (64k quick / 1M thorough) and by 64 hash-seeded presentation variants per combination in the thorough tier; every observation is repeated after the object's higher-level scores have been queried.",
         "Trusted: reference tables/equations in harness/spec (written from the FIRST documents, self-tested against their worked examples and the repository's pinned literals), math/big, binding of codes to library constants by exported name.",
         "DESIGN.md section 6, C01"),
 "C02": ("exhaustive enumeration + rapid PBT vs exact integer temporal equation",
         "All 518,400 version x base x temporal vectors are decoded (quick: temporal decoder, canonical form; thorough: temporal and environmental decoder, canonical plus two shuffled / X-spelling / decorated variants) and compared with Roundup(base x E x RL x RC) evaluated in integer arithmetic on the exact rounded base; rapid adds random order, omission, explicit X and nil receivers through both decoders.",
         "Trusted: as C01; both Roundup readings (v3.0 wording, v3.1 Appendix A) are evaluated and their agreement on the domain is re-measured every run.",
         "DESIGN.md section 6, C02"),
 "C03": ("exhaustive enumeration (effective metrics x temporal; thorough: full 1.1e10 product) + seeded sampling + rapid PBT vs exact-rational model",
         "Layer 1 enumerates all 33,177,600 effective-metric x temporal objects (every Modified metric defined, base metrics disagreeing) against the exact environmental equations; layer 2 checks the fall-back resolution on the version x base x environmental product (16,000,000 distinct seeded points quick, all 11,466,178,560 thorough); layer 3 sends rapid-generated vectors through the environmental decoder (64k / 1M); layer 4 decodes, for every version x base combination, the vector whose Modified metrics restate the base metrics and its one-step variants; layer 5 enumerates, on one object, every two-field transition (all field pairs x start values x end values, three contexts). A mismatch on a reused object that a fresh object does not reproduce is reported as an assign / score / assign / score history.",
         "Trusted: as C01 plus the reference resolution (Modified X -> base value, MS selecting formula and PR table). Objects in layers 1-2 are built from the exported constructor and exported-field assignment, which the property names as an observation point.",
         "DESIGN.md section 6, C03"),
 "C04": ("exhaustive enumeration + rapid PBT vs exact-rational v2 model with admissible-tenth sets",
         "All 73,629 base x (temporal + absent) vectors are decoded by every applicable decoder and base / temporal scores compared with the exact FIRST v2 equations on unrounded sub-scores (halves admit both neighbours). The 22 listed base vectors of known finding KF-1 are excused only when the library value equals the listed tenth (and its exact propagation for temporal scores).",
         "Trusted: reference v2 tables/equations (harness/spec, pinned to the v2 guide's examples); known_findings.json is committed and never written at run time.",
         "DESIGN.md sections 6 (C04) and 7"),
 "C05": ("exhaustive field sweep (thorough: all 1.41e8) + seeded decode sample + rapid PBT vs exact-rational v2 environmental model",
         "Quick: all 729 x 64 x 30 objects with the temporal group absent plus the 73,629 group-absent vectors, 800,000 distinct seeded full vectors through Decode and 16,000 rapid vectors; thorough: the complete 141,441,309 product by field assignment on decoded shape templates plus 2,000,000 decoded vectors. Admissible sets cover exact halves and the negative-equation allowance; KF-1/KF-2 inputs are excused only on exact propagation of the listed wrong tenth.",
         "Trusted: as C04; field assignment on a decoded object is equivalent to decoding the corresponding vector (cross-checked by the decode stage and by C09).",
         "DESIGN.md sections 6 (C05) and 7"),
 "C06": ("exhaustive enumeration / seeded sampling with integer grid and band oracle",
         "Every level of every object in the finite domains of C01-C05 (quick: complete v3 base x temporal, effective environmental domain at 4 temporal settings, 8,000,000 sampled full environmental points, complete v2 base x temporal and the temporal-absent environmental sweep; thorough: all 33,177,600 and all 141,441,309) must score exactly k/10 with 0 <= k <= 100 and report the severity band of k; attained tenths and band edges are reported per level.",
         "Trusted: band tables transcribed from the property; the v2 negative-equation exception is decided by C05's exact model; -0.0 accepted as 0.",
         "DESIGN.md section 6, C06"),
 "C07": ("bounded-exhaustive token neighbourhood + rapid PBT + native coverage-guided fuzzing vs reference recogniser",
         "The three v3 decoders are compared with a hand-written reference recogniser on ~350,000 single-token edits of 6 representative vectors (complete over a ~680 token vocabulary x every position; thorough: also token pairs), ~44,000 constructed shapes (token floods at counts around powers of two, boundary-length tokens, full-width / look-alike / invisible / truncation-alias characters at every position, values made of several codes, token and block moves, dense multi-byte text, runs of one special byte), 1,000,000 (quick) / 4,000,000 (thorough) rapid cases (valid vectors of every level at every decoder, 16 classified edit kinds, single-defect inputs, arbitrary strings and raw bytes; decoders from constructors, nil receivers, constructors queried before Decode, and decoders primed by an earlier decode) and, in the thorough tier, 300 s of native fuzzing with the oracle inside the target.",
         "Trusted: reference recogniser written from the property text. The string language is infinite: this is exploration with measured class coverage, not exhaustion.",
         "DESIGN.md section 6, C07"),
 "C08": ("bounded-exhaustive token neighbourhood + rapid PBT + native fuzzing vs anchored regular expressions",
         "Same machinery as C07 for the three v2 decoders; the oracle is three anchored regular expressions transcribed from the property (Go regexp shares nothing with the decoders).",
         "Trusted: the regular expressions; exploration, not exhaustion, of the string language.",
         "DESIGN.md section 6, C08"),
 "C11": ("bounded-exhaustive single-defect enumeration + rapid PBT + native fuzzing vs defect-set classifier",
         "Every rejection must match exactly one exported sentinel under errors.Is, and that sentinel must be in the set of defects the reference classifier finds in the input; for ~22,000 constructed single-defect inputs (every kind x every token x every position over 12 representative vectors at every covering decoder) and for rapid single-defect inputs the sentinel must be exactly the constructed kind; plus the ~80,000 constructed shapes of C07/C08, 320k / 3M rapid strings and 300 s native fuzzing (thorough).",
         "Trusted: classifier (superset semantics for multi-defect inputs, so any scan order of a correct decoder passes); single-defect inputs are single by construction.",
         "DESIGN.md section 6, C11"),
 "C12": ("rapid PBT + object-state enumeration + native fuzzing with recover() and exclusivity oracle",
         "Arbitrary strings (320k quick / 3M thorough, up to 64 KiB, ~80,000 constructed shapes, plus eight 1-4 MiB constructed inputs and 600 s native fuzzing in the thorough tier) at all six decoders via constructor and nil receiver: no panic, exactly one of (object, error); every observer on returned objects, left-over receivers, nil receivers and fresh objects never panics; every one-field-reset state of generated accepted vectors (8k / 100k vectors, reset before or after a first query) must yield GetError != nil, Encode error and Score 0 at every view whose level includes the field; further Decode calls on left-over receivers must not panic either.",
         "Trusted: zero value of each exported enumeration field is its unknown/invalid constant; v2 IsEmpty() on nil receivers is outside the property's observation list.",
         "DESIGN.md section 6, C12"),
 "C09": ("deterministic sweeps + rapid PBT vs reference token map; permutation / X-vs-omitted metamorphic twins",
         "Every exported field of every decoded object (read by reflection on the field name) must be the exported constant of the value written for that metric; unwritten v3 optional metrics must be Not Defined, v2 groups must report IsEmpty() correctly; the canonical spelled-out twin and the canonical defined-only twin of every v3 vector must give an identical snapshot (fields, scores, severities, encodings at every level). Sweeps: every metric x code x token position, all 2^14 optional-metric subsets, block moves and group orders, every v2 metric x code x group shape (thorough: all 8! base-token orders of 4 vectors); rapid 320k (C09: 200k) / 3M vectors; one sweep vector in five and one rapid case in six is offered to a decoder object that has already decoded another vector (refused = nothing asserted, accepted = checked like any decoded object).",
         "Trusted: reference tokenizer and the name binding of constants; the accepted-vector language itself is C07/C08's subject.",
         "DESIGN.md section 6, C09"),
 "C10": ("deterministic sweeps + rapid PBT vs reference canonical encoder; round-trip",
         "Encode() must return (canonical text, nil) with the canonical text computed by a reference encoder (v3: prefix, specification order, every optional metric of the object's level spelled out; v2: byte-identical input), String() must equal Encode(), decoding the encoding with the same decoder must give an identical snapshot, and encodings held while other objects are encoded must not change. Same sweeps, re-used decoder cases and rapid budgets as C09.",
         "Trusted: reference canonical encoder written from the property statement.",
         "DESIGN.md section 6, C10"),
 "C14": ("deterministic sweeps + rapid PBT; differential against independent lower-level decodes of the reference projection",
         "For every accepted temporal / environmental vector, BaseMetrics() / TemporalMetrics() (and the base view of the temporal view) must agree in score, severity, encoding and encoding error with NewBase / NewTemporal decodes of the vector's base and base+temporal projections computed by the reference tokenizer; accessors must be non-nil; every case is evaluated in both query orders (views first / top-level object first), and the complete v2 base x temporal domain is compared through the environmental decoder.",
         "Trusted: reference projection. Same sweeps and rapid budgets as C09, restricted to temporal and environmental decoders.",
         "DESIGN.md section 6, C14"),
 "C15": ("model-based PBT: generated operation sequences with a fresh-twin oracle",
         "rapid generates 1-40 step sequences (observer queries on every level view, full observations, report construction/export incl. a held report and option-less reports, exported-field assignments observed immediately, further Decodes on successfully decoded subjects, noise decodes of other vectors) over subjects from all six decoders: decoded objects, failed-decode receivers, constructors queried before Decode, objects built from fields alone, v2 objects with optional fields assigned before Decode; valid, mutated and arbitrary inputs. After every step the object must equal a never-queried twin rebuilt from its recipe, the twin must equal the twin built before the history, a plain re-decode of the input must equal the first one, a fixed template list exported from a fresh decode must render as before the history, and repeated queries must agree; every code of every parser is parsed 200 times; a query / assign / query sweep covers every field. 16,000 sequences quick, 300,000 thorough.",
         "Only observable state (exported fields, query results, report structs) is compared. Histories are sampled, not exhausted.",
         "DESIGN.md section 6, C15"),
 "C16": ("PBT of concurrent workloads under the Go race detector + sequential-equivalence oracle",
         "The test binary is built with -race. Every process starts with a cold-start storm (16 goroutines issuing identical decode / query / report / export operations before anything has warmed lazily initialised state), then rapid workloads (pool of valid and invalid vectors, 2-16 goroutines x up to 50 operations on own and shared objects — shared objects are freshly decoded, decoded then assigned, or built from fields, always finished before the goroutines start —, 12 language tags, 9 templates incl. conflicting defines and invalid ones, held export readers, GOMAXPROCS 2/4/16, generated yield points) run concurrent-first; the race runtime's log must not grow and every result must equal the sequential result computed afterwards on the same objects. A pair hammer runs every unordered pair of 67 scope-changed environmental vectors with distinct modified impact sub-scores (per version) as a workload of 16 goroutines calling Score() alternately on the two shared objects in a tight loop (400 calls each quick, 20,000 thorough); the set of distinct answers per object must be what it is sequentially. 16 processes; 1,600 workloads quick, 24,000 thorough. A process killed by the runtime (concurrent map access) is reported with the workload that was running.",
         "Schedules are sampled, not enumerated: the harness does not own the Go scheduler. The race detector supplies the order-independent part (happens-before races are reported whenever both accesses execute). A bug that needs one specific interleaving and is invisible to the race detector could be missed.",
         "DESIGN.md section 6, C16"),
 "C17": ("complete one-metric sweep + rapid PBT vs hand-written wiring table",
         "For (vector x report level x language) every report field is compared with the localised title / value name of exactly the metric it is named after (object field read by reflection), version label, each level's Encode(), decimal rendering of each level's score and each level's severity, through the report itself and through the embedded reports; any language other than en/ja must equal the English report. Vectors are biased so that C/I/A, MC/MI/MA and CR/IR/AR are pairwise different; precondition (titles pairwise distinct) re-checked each run. Reports are read after decoy reports in other languages were built; several language options and their order, regional and script variants of ja/en first in a cold process (odd shards), and a second report from the same object are covered. 80k quick / 1M thorough.",
         "Trusted: names package as dictionary (C18 checks it).",
         "DESIGN.md section 6, C17"),
 "C18": ("exhaustive box enumeration + rapid PBT with totality / injectivity / fallback relations",
         "All 52 name functions x every integer in [-8, max+8] x 66 language tags (complete), plus rapid full-range integers and composed tags: non-empty English and Japanese names for titles and defined values, pairwise distinct value names per metric and language, Modified value name == base value name for the same code, out-of-range values named Unknown / its Japanese equivalent, every other language exactly the English string.",
         "Trusted: the Unknown literals pinned by the repository's own tests; tags whose language subtag is en/ja but which are not exactly en/ja are skipped as unspecified.",
         "DESIGN.md section 6, C18"),
 "C19": ("grammar-based rapid PBT + native fuzzing; differential against text/template plus reflection model",
         "Templates from a grammar (literals, fields of all three levels and embedded paths, pipelines, control structures, variables, define/template/block, invalid forms) x report level x language x reader kind (string, bytes.Reader, one-byte, half, data-with-EOF, partially consumed strings / bytes / bufio / section / buffer readers, failing after k bytes with one of eight real-world error values with or without data, nil interface) x nil reports, with a second export made before the first reader is read: output must be byte-identical to text/template's on the same value, every failure must match the invalid-template (or null-pointer) sentinel with a nil reader; an independent reflection model decides literal + plain-field templates. 80k quick / 1M thorough + 300 s native fuzzing of the template bytes; templates up to > 1 MiB.",
         "Trusted: the toolchain's text/template as rendering reference (as the property states). Templates with call cycles or > 1 MiB output are skipped and counted.",
         "DESIGN.md section 6, C19"),
 "C20": ("exhaustive table enumeration + bounded-exhaustive short strings + rapid PBT vs reference tables",
         "For all 22 v3 and 14 v2 metrics: every code parses to the exported constant of that name and prints back, the unknown value prints empty and is separated from every defined value by the validity predicate, every weight equals the specification's decimal (PR per scope; every Modified metric at every own value x every base value; MPR over all MS x S x MPR x PR combinations), integers in [-8, max+8] and wide integers aliasing defined values under 8/16/32-bit truncation never panic, print empty and weigh what the unknown value weighs; every string of length <= 3 over a 28-character alphabet, an ASCII character next to every two-byte rune (thorough: every valid UTF-8 string of at most 3 bytes, 2,668,539 per parser), long strings with a code prefix and rapid strings must parse to unknown unless they are a code; version label parser/printers (v3/metric and legacy v3/version) are mutually inverse on {3.0, 3.1}.",
         "Trusted: reference tables transcribed from the FIRST documents; float equality is sound because both sides are the nearest double of the same decimal literal.",
         "DESIGN.md section 6, C20"),
 "C13": ("exhaustive enumeration with metamorphic (library-vs-library) oracle",
         "All 518,400 v3 vectors (temporal <= base; all-X temporal == base; all-X environmental == temporal except v3.1 with S:C), all 5,184 base vectors through the environmental decoder with X omitted and spelled out, all 73,629 v2 vectors, and the v2 Target Distribution None slice (4,000,000 distinct seeded points quick, all 28,273,536 thorough).",
         "Relations between library results only; no reference model is trusted.",
         "DESIGN.md section 6, C13"),
}

NOT_YET = "check not built yet in this commit (planned with the same technique; see DESIGN.md section 6)"

def main():
    checks = []
    for pid in sorted(CLAIMS):
        tech, text, note, ref = CLAIMS[pid]
        checks.append({
            "property_id": pid,
            "quick_cmd": f"./check {pid} quick",
            "thorough_cmd": f"./check {pid} thorough",
            "evidence_file": f"/verif/evidence/{pid}.json",
            "replay_cmd_template": f"./check {pid} --replay {{path}}",
            "engine": "pbt-harness",
            "level_claimed": {"category": "exploration", "text": text, "design_ref": ref},
            "level_note": note,
            "technique": tech,
        })
    na = [{"property_id": f"C{n:02d}", "reason": NOT_YET} for n in range(1, 21) if f"C{n:02d}" not in CLAIMS]
    m = {
        "version": 1,
        "setup_cmd": f"{GO_ENV}; cd /verif && mkdir -p bin .cache && (cd harness && go build -o ../bin/verifcheck ./cmd/check && go test -c -vet=off -o /dev/null ./props)",
        "hooks": {
            "guard": "verif",
            "enable": "no hooks are needed: every observation point is exported API; checks build /repo's working tree through a replace directive (go test -c in /verif/harness)",
            "baseline_off_cmd": f"{GO_ENV}; cd /repo && go test -vet=off -count=1 ./...",
            "source_commits": [],
            "add_only": True,
        },
        "engines": [{
            "name": "pbt-harness",
            "path": "/verif/harness",
            "serves_properties": sorted(CLAIMS),
            "kind_free_text": "Go test binary (pgregory.net/rapid v1.3.0 properties, complete enumerations of the finite scoring domains, native go fuzz targets) compiled against /repo's working tree; driver harness/cmd/check shards, merges evidence, replays saved cases",
        }],
        "checks": checks,
        "notes": "Exit codes: 0 held, 1 VIOLATION line + replay file, 2 inconclusive (build failure/timeout). VERIF_SEED selects the rapid / sampling seed (default 1). Known findings: /verif/known_findings.json.",
        "not_applicable": na,
    }
    json.dump(m, open("/verif/MANIFEST.json", "w"), indent=1)
    print("claimed:", ",".join(sorted(CLAIMS)), "| not claimed:", len(na))

main()
