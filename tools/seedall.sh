#!/bin/bash
# seedall.sh [tier]: re-runs every stored seeded change (seeded/*/meta.json) through
# tools/seedeval.sh and prints one line per change: which checks caught it.
cd "$(dirname "$0")/.."
export SEED_TIER=${1:-quick}
ok=0; bad=0
for d in seeded/${2:-*}/; do
  sid=$(basename "$d")
  read -r dest run checks < <(python3 - "$d/meta.json" <<'P'
import json,sys
m=json.load(open(sys.argv[1]))
cmd=m["demonstration"]["command"].replace("go test -vet=off -count=1 ","")
print(m["demonstration"]["copy_into"], cmd.replace(" ","\x1f"), ",".join(m["caught_by_quick_tier"]))
P
)
  run=${run//$'\x1f'/ }
  demo=$(ls "$d" | grep -v 'meta.json\|patch.diff' | head -1)
  out=$(tools/seedeval.sh "$d/patch.diff" "$d/$demo" "$dest" "$run" ${checks//,/ } 2>&1)
  caught=$(grep -c "CAUGHT" <<<"$out"); want=$(tr ',' '\n' <<<"$checks" | grep -c .)
  facts=$(grep -c "SUITE-WITH-PATCH: passes\|DEMO-WITH-PATCH: fails\|DEMO-WITHOUT-PATCH: passes" <<<"$out")
  if [ "$caught" -eq "$want" ] && [ "$facts" -eq 3 ]; then ok=$((ok+1)); echo "$sid: ok (caught by ${checks:-nothing in this tier: see meta.json})"; else bad=$((bad+1)); echo "$sid: PROBLEM (caught $caught of $want; facts $facts/3)"; grep "CHECK\|UNEXPECTED\|FAILS" <<<"$out"; fi
done
echo "seedall: ok=$ok problem=$bad"
[ $bad -eq 0 ]
