#!/usr/bin/env python3
"""seedstore.py SID PROPERTY PATCH DEMO DEST RUNARGS -- stores a verified seeded change under /verif/seeded/SID/.
Reads a JSON object with the free-text fields (breaks, needs, caught_by, initially_missed_by, strengthening) from stdin."""
import json, os, shutil, sys
sid, prop, patch, demo, dest, runargs = sys.argv[1:7]
extra = json.load(sys.stdin)
d = f"/verif/seeded/{sid}"
os.makedirs(d, exist_ok=True)
shutil.copy(patch, f"{d}/patch.diff")
demo_name = "demo_test.go" if demo.endswith("_test.go") else os.path.basename(demo)
shutil.copy(demo, f"{d}/{demo_name}")
meta = {
    "id": sid,
    "property": prop,
    "origin": "written by an independent sub-agent that saw only the property text and a scratch worktree of /repo (nothing from /verif)",
    "breaks": extra["breaks"],
    "needs_to_manifest": extra["needs"],
    "demonstration": {"file": demo_name, "copy_into": dest, "command": f"go test -vet=off -count=1 {runargs}"},
    "verified_in_scratch_copy": {
        "tool": "tools/seedeval.sh (scratch copy of /repo under /tmp, removed afterwards)",
        "patch_applies_and_builds": True,
        "repository_suite_passes_with_patch": True,
        "demonstration_fails_with_patch": True,
        "demonstration_passes_without_patch": True,
    },
    "caught_by_quick_tier": extra["caught_by"],
    "caught_by_thorough_tier_only": extra.get("caught_by_thorough", []),
    "not_caught": extra.get("not_caught", ""),
    "initially_missed_by": extra.get("initially_missed_by", []),
    "strengthening": extra.get("strengthening", ""),
    "how_to_rerun": f"tools/seedeval.sh seeded/{sid}/patch.diff seeded/{sid}/{demo_name} {dest} \"{runargs}\" {' '.join(extra['caught_by'])}",
}
json.dump(meta, open(f"{d}/meta.json", "w"), indent=1, ensure_ascii=False)
print("stored", d)
