#!/usr/bin/env python3
"""mkmutant.py NAME FILE OLD NEW [FILE OLD NEW ...]: writes /verif/mutants/NAME.diff, the patch
replacing OLD by NEW (exact, first occurrence, must exist) in /repo-relative FILE(s)."""
import subprocess, sys, tempfile, os, shutil
name = sys.argv[1]
trip = sys.argv[2:]
assert len(trip) % 3 == 0 and trip
tmp = tempfile.mkdtemp(prefix="verif-mkmut.", dir="/tmp")
try:
    a, b = os.path.join(tmp, "a"), os.path.join(tmp, "b")
    for i in range(0, len(trip), 3):
        f, old, new = trip[i:i+3]
        for root in (a, b):
            os.makedirs(os.path.dirname(os.path.join(root, f)), exist_ok=True)
            if not os.path.exists(os.path.join(root, f)):
                shutil.copy(os.path.join("/repo", f), os.path.join(root, f))
        p = os.path.join(b, f)
        s = open(p).read()
        if old not in s:
            sys.exit(f"{name}: OLD text not found in {f}")
        open(p, "w").write(s.replace(old, new, 1))
    r = subprocess.run(["diff", "-ruN", "a", "b"], cwd=tmp, capture_output=True, text=True)
    open(f"/verif/mutants/{name}.diff", "w").write(r.stdout)
    print(f"wrote mutants/{name}.diff ({len(r.stdout.splitlines())} lines)")
finally:
    shutil.rmtree(tmp)
