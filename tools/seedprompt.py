#!/usr/bin/env python3
"""seedprompt.py ROUND ID...  — writes the prompt given to an independent sub-agent that is asked for a
breaking change (it sees only the property text and a scratch worktree /tmp/seed<ROUND>-<ID>; nothing from /verif)
to /tmp/seedprompts<ROUND>/<ID>.txt and creates the worktree."""
import json, os, subprocess, sys
rnd, ids = sys.argv[1], sys.argv[2:]
# an argument may be ID or "ID=trigger class to aim for"
classes = {}
ids2 = []
for a in ids:
    if "=" in a:
        i, c = a.split("=", 1)
        classes[i] = c
        ids2.append(i)
    else:
        ids2.append(a)
ids = ids2
tmpl = """You are working alone in a scratch git worktree of the Go library goark/go-cvss located at {wt} (a detached worktree of the repository; work ONLY inside {wt} and {wt}-out). Do NOT read, list or modify anything under /verif, and do not modify /repo. Do not use `git stash` (it is shared between worktrees); use `git checkout -- .` or `git apply -R`. The sandbox is offline: every shell call that runs Go needs
  export GOFLAGS=-mod=mod GOPROXY=off GOSUMDB=off GOTOOLCHAIN=local
The library's existing test suite is run with `go test -vet=off -count=1 ./...` from the worktree root (it currently passes). If a Go command rewrites go.mod/go.sum, restore them with git checkout.

The library parses CVSS v2/v3.0/v3.1 vector strings (packages v2/metric, v3/metric), computes base/temporal/environmental scores and severities, and renders localized reports through text/template (v3/report, v3/report/names); errors are sentinels in cvsserr.

Here is a semantic property the library is supposed to satisfy:

TITLE: {title}
STATEMENT: {statement}
QUANTIFIED OVER: {quant}

YOUR TASK: produce a change to the library's non-test source code that BREAKS this property while
 (a) the module still compiles (`go build ./...`),
 (b) the complete existing test suite, unedited, still passes,
 (c) the breakage is HARD TO HIT: it must need something specific to manifest — an unusual input shape (length, byte values, unicode, whitespace, separators, very long or deeply structured input), a particular rare combination of metric values, a multi-step sequence of operations in a particular order, a particular goroutine interleaving or first-use timing, a fault at a particular point, or two cooperating code sites that each look fine alone. Aim for a trigger that a randomly generated valid or slightly mutated vector (or a random short sequence of API calls) would hit with probability well below 1 in 10,000, and that a simple exhaustive loop over the obvious small domains (all metric-value combinations in canonical order through a freshly constructed decoder, one token changed at a time) would not reach — think of how the value gets INTO the object or HOW the object is used (token order, omitted versus explicit Not Defined, which decoder level, nil receiver versus constructor, fields assigned directly, earlier queries, process history, concurrency) rather than of the arithmetic alone. It should still look like a plausible refactoring, optimisation, robustness fix or slip that a maintainer could really introduce (no comments announcing the bug, no magic-string backdoors that no maintainer would write).
{klass}Read the relevant source and the existing tests first so that you know what the tests pin. Produce TWO different changes if you can (different mechanism or code site), each as its own patch; one is acceptable if the second does not work out.

DELIVERABLES in {wt}-out/ (create files there):
 - patch1.diff (and patch2.diff): `git diff` of the source change against HEAD; it must apply to a clean checkout with `git apply`.
 - demo1_test.go (and demo2_test.go): a Go test file demonstrating the breakage: it FAILS when the patch is applied and PASSES on the unpatched tree. State in notes.md exactly into which package directory the file must be copied and the exact `go test` command to run it. The demo must assert the property (not merely print).
 - notes.md: for each patch — what it changes, why it breaks the property, what specifically is needed to make it manifest (and roughly how rare that is), and the commands you ran with their outcome: (1) suite passes with the patch, (2) demo fails with the patch, (3) demo passes without the patch.
Verify all three facts yourself before finishing. When done, leave the worktree clean (`git checkout -- .` and remove untracked files you added inside the worktree). Your final message should summarise each patch in 3-5 lines."""
props = {json.loads(l)["id"]: json.loads(l) for l in open("/verif/properties.jsonl")}
os.makedirs(f"/tmp/seedprompts{rnd}", exist_ok=True)
for i in ids:
    p = props[i]
    wt = f"/tmp/seed{rnd}-{i}"
    klass = ""
    if i in classes:
        klass = "TRIGGER CLASS TO AIM FOR IN THIS TASK (both patches, if possible with different mechanisms): " + classes[i] + ".\n"
    open(f"/tmp/seedprompts{rnd}/{i}.txt", "w").write(tmpl.format(wt=wt, title=p["title"], statement=p["statement"], quant=p["quantifier"]["text"], klass=klass))
    subprocess.run(["git", "-C", "/repo", "worktree", "add", "-q", "--detach", wt, "HEAD"], check=True)
    os.makedirs(wt + "-out", exist_ok=True)
print("prepared", ids)
