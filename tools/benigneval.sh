#!/bin/bash
# benigneval.sh <patch.diff> [ID...]: applies a behaviour-preserving change to a scratch copy of
# /repo (outside /repo and /verif, removed afterwards), checks that it builds and that the
# repository's suite passes, then runs the quick tier of every check (or of the given ones)
# against it. Every check must exit 0: a VIOLATION here is a false alarm to investigate
# (or a behaviour change the refactoring did make after all).
set -u
export GOFLAGS=-mod=mod GOPROXY=off GOSUMDB=off GOTOOLCHAIN=local
VD=$(cd "$(dirname "$0")/.." && pwd)
patch=$(readlink -f "$1"); shift
ids=("$@"); [ ${#ids[@]} -eq 0 ] && ids=(C01 C02 C03 C04 C05 C06 C07 C08 C09 C10 C11 C12 C13 C14 C15 C16 C17 C18 C19 C20)
scratch=$(mktemp -d /tmp/verif-benign.XXXXXX); trap 'rm -rf "$scratch"' EXIT
mkdir -p "$scratch/r"; (cd /repo && git ls-files -z | xargs -0 cp --parents -t "$scratch/r"); (cd "$scratch/r" && git init -q . && git add -A >/dev/null 2>&1)
(cd "$scratch/r" && git apply "$patch") || { echo "PATCH: does not apply"; exit 3; }
(cd "$scratch/r" && go build ./... ) || { echo "BUILD: FAILED"; exit 3; }
if (cd "$scratch/r" && go test -vet=off -count=1 ./... >"$scratch/suite.log" 2>&1); then echo "SUITE: passes"; else echo "SUITE: FAILS"; tail -5 "$scratch/suite.log"; exit 3; fi
bad=0
for id in "${ids[@]}"; do
  out=$(cd "$VD" && ./check "$id" quick --repo "$scratch/r" 2>&1); code=$?
  if [ $code -eq 0 ]; then echo "CHECK $id: silent"; else bad=$((bad+1)); echo "CHECK $id: exit $code — $(grep -m1 -A1 '^VIOLATION\|^INCONCLUSIVE' <<<"$out" | tail -1 | sed 's/^ *//' | cut -c1-300)"; fi
done
rm -rf "$VD/.cache/selftest-replay"
echo "benigneval: $bad check(s) not silent"
[ $bad -eq 0 ]
