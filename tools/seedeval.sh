#!/bin/bash
# seedeval.sh <patch.diff> <demo file> <demo dest dir (repo-relative)> <demo go-test args> <ID> [more IDs...]
# Verifies an independently written breaking change in a scratch copy of /repo (outside /repo
# and /verif, removed afterwards): patch applies, module builds, the repository's own suite
# passes with it, the demonstration fails with it and passes without it; then runs the quick
# tier of the given checks against the patched copy. Prints one summary line per fact.
set -u
export GOFLAGS=-mod=mod GOPROXY=off GOSUMDB=off GOTOOLCHAIN=local
VD=$(cd "$(dirname "$0")/.." && pwd)
patch=$(readlink -f "$1"); demo=$(readlink -f "$2"); dest=$3; dargs=$4; shift 4
tier=${SEED_TIER:-quick}
scratch=$(mktemp -d /tmp/verif-seedeval.XXXXXX); trap 'rm -rf "$scratch"' EXIT
mkcopy() { rm -rf "$scratch/$1"; mkdir -p "$scratch/$1"; (cd /repo && git ls-files -z | xargs -0 cp --parents -t "$scratch/$1"); (cd "$scratch/$1" && git init -q . && git add -A >/dev/null 2>&1); }
mkcopy clean; mkcopy patched
(cd "$scratch/patched" && git apply "$patch") || { echo "PATCH: does not apply"; exit 3; }
echo "PATCH: applies"
(cd "$scratch/patched" && go build ./... ) && echo "BUILD: ok" || { echo "BUILD: FAILED"; exit 3; }
if (cd "$scratch/patched" && go test -vet=off -count=1 ./... >"$scratch/suite.log" 2>&1); then echo "SUITE-WITH-PATCH: passes"; else echo "SUITE-WITH-PATCH: FAILS"; tail -5 "$scratch/suite.log"; fi
cp "$demo" "$scratch/patched/$dest/"; cp "$demo" "$scratch/clean/$dest/"
if (cd "$scratch/patched" && go test -vet=off -count=1 $dargs >"$scratch/demo-p.log" 2>&1); then echo "DEMO-WITH-PATCH: passes (UNEXPECTED)"; else echo "DEMO-WITH-PATCH: fails (expected)"; fi
if (cd "$scratch/clean" && go test -vet=off -count=1 $dargs >"$scratch/demo-c.log" 2>&1); then echo "DEMO-WITHOUT-PATCH: passes (expected)"; else echo "DEMO-WITHOUT-PATCH: FAILS (UNEXPECTED)"; tail -5 "$scratch/demo-c.log"; fi
rm -f "$scratch/patched/$dest/$(basename "$demo")"
for id in "$@"; do
  out=$(cd "$VD" && ./check "$id" "$tier" --repo "$scratch/patched" 2>&1); code=$?
  if [ $code -eq 1 ]; then echo "CHECK $id $tier: CAUGHT — $(grep -m1 -A1 '^VIOLATION' <<<"$out" | tail -1 | sed 's/^ *//' | cut -c1-160)";
  else echo "CHECK $id $tier: not caught (exit $code)"; fi
done
[ -n "${SEED_NOCLEAN:-}" ] || rm -rf "$VD/.cache/selftest-replay"
