// Package bind links the reference tables (spec) to the library's exported enumeration
// constants. The link is by exported constant *name* only: nothing here goes through the
// library's parsers (Get*), printers (String) or weight functions.
package bind

import (
	m2 "github.com/goark/go-cvss/v2/metric"
	m3 "github.com/goark/go-cvss/v3/metric"
)

// ---- CVSS v3: arrays indexed like spec.V3Metrics[...].Codes ----------------------

var (
	V3Ver = [2]m3.Version{m3.V3_0, m3.V3_1}

	V3AV = [4]m3.AttackVector{m3.AttackVectorNetwork, m3.AttackVectorAdjacent, m3.AttackVectorLocal, m3.AttackVectorPhysical}
	V3AC = [2]m3.AttackComplexity{m3.AttackComplexityLow, m3.AttackComplexityHigh}
	V3PR = [3]m3.PrivilegesRequired{m3.PrivilegesRequiredNone, m3.PrivilegesRequiredLow, m3.PrivilegesRequiredHigh}
	V3UI = [2]m3.UserInteraction{m3.UserInteractionNone, m3.UserInteractionRequired}
	V3S  = [2]m3.Scope{m3.ScopeUnchanged, m3.ScopeChanged}
	V3C  = [3]m3.ConfidentialityImpact{m3.ConfidentialityImpactHigh, m3.ConfidentialityImpactLow, m3.ConfidentialityImpactNone}
	V3I  = [3]m3.IntegrityImpact{m3.IntegrityImpactHigh, m3.IntegrityImpactLow, m3.IntegrityImpactNone}
	V3A  = [3]m3.AvailabilityImpact{m3.AvailabilityImpactHigh, m3.AvailabilityImpactLow, m3.AvailabilityImpactNone}

	V3E  = [5]m3.Exploitability{m3.ExploitabilityNotDefined, m3.ExploitabilityHigh, m3.ExploitabilityFunctional, m3.ExploitabilityProofOfConcept, m3.ExploitabilityUnproven}
	V3RL = [5]m3.RemediationLevel{m3.RemediationLevelNotDefined, m3.RemediationLevelUnavailable, m3.RemediationLevelWorkaround, m3.RemediationLevelTemporaryFix, m3.RemediationLevelOfficialFix}
	V3RC = [4]m3.ReportConfidence{m3.ReportConfidenceNotDefined, m3.ReportConfidenceConfirmed, m3.ReportConfidenceReasonable, m3.ReportConfidenceUnknown}

	V3CR  = [4]m3.ConfidentialityRequirement{m3.ConfidentialityRequirementNotDefined, m3.ConfidentialityRequirementHigh, m3.ConfidentialityRequirementMedium, m3.ConfidentialityRequirementLow}
	V3IR  = [4]m3.IntegrityRequirement{m3.IntegrityRequirementNotDefined, m3.IntegrityRequirementHigh, m3.IntegrityRequirementMedium, m3.IntegrityRequirementLow}
	V3AR  = [4]m3.AvailabilityRequirement{m3.AvailabilityRequirementNotDefined, m3.AvailabilityRequirementHigh, m3.AvailabilityRequirementMedium, m3.AvailabilityRequirementLow}
	V3MAV = [5]m3.ModifiedAttackVector{m3.ModifiedAttackVectorNotDefined, m3.ModifiedAttackVectorNetwork, m3.ModifiedAttackVectorAdjacent, m3.ModifiedAttackVectorLocal, m3.ModifiedAttackVectorPhysical}
	V3MAC = [3]m3.ModifiedAttackComplexity{m3.ModifiedAttackComplexityNotDefined, m3.ModifiedAttackComplexityLow, m3.ModifiedAttackComplexityHigh}
	V3MPR = [4]m3.ModifiedPrivilegesRequired{m3.ModifiedPrivilegesRequiredNotDefined, m3.ModifiedPrivilegesRequiredNone, m3.ModifiedPrivilegesRequiredLow, m3.ModifiedPrivilegesRequiredHigh}
	V3MUI = [3]m3.ModifiedUserInteraction{m3.ModifiedUserInteractionNotDefined, m3.ModifiedUserInteractionNone, m3.ModifiedUserInteractionRequired}
	V3MS  = [3]m3.ModifiedScope{m3.ModifiedScopeNotDefined, m3.ModifiedScopeUnchanged, m3.ModifiedScopeChanged}
	V3MC  = [4]m3.ModifiedConfidentialityImpact{m3.ModifiedConfidentialityImpactNotDefined, m3.ModifiedConfidentialityImpactHigh, m3.ModifiedConfidentialityImpactLow, m3.ModifiedConfidentialityImpactNone}
	V3MI  = [4]m3.ModifiedIntegrityImpact{m3.ModifiedIntegrityImpactNotDefined, m3.ModifiedIntegrityImpactHigh, m3.ModifiedIntegrityImpactLow, m3.ModifiedIntegrityImpactNone}
	V3MA  = [4]m3.ModifiedAvailabilityImpact{m3.ModifiedAvailabilityImpactNotDefined, m3.ModifiedAvailabilityImpactHigh, m3.ModifiedAvailabilityImpactLow, m3.ModifiedAvailabilityImpactNone}
)

// SetV3Base assigns the exported base fields from spec indices.
func SetV3Base(b *m3.Base, ver int, x [8]int) {
	b.Ver = V3Ver[ver]
	b.AV, b.AC, b.PR, b.UI = V3AV[x[0]], V3AC[x[1]], V3PR[x[2]], V3UI[x[3]]
	b.S, b.C, b.I, b.A = V3S[x[4]], V3C[x[5]], V3I[x[6]], V3A[x[7]]
}

func SetV3Temporal(t *m3.Temporal, x [3]int) {
	t.E, t.RL, t.RC = V3E[x[0]], V3RL[x[1]], V3RC[x[2]]
}

func SetV3Env(e *m3.Environmental, x [11]int) {
	e.CR, e.IR, e.AR = V3CR[x[0]], V3IR[x[1]], V3AR[x[2]]
	e.MAV, e.MAC, e.MPR, e.MUI = V3MAV[x[3]], V3MAC[x[4]], V3MPR[x[5]], V3MUI[x[6]]
	e.MS, e.MC, e.MI, e.MA = V3MS[x[7]], V3MC[x[8]], V3MI[x[9]], V3MA[x[10]]
}

// ---- CVSS v2 -----------------------------------------------------------------------

var (
	V2AV = [3]m2.AccessVector{m2.AccessVectorLocal, m2.AccessVectorAdjacent, m2.AccessVectorNetwork}
	V2AC = [3]m2.AccessComplexity{m2.AccessComplexityHigh, m2.AccessComplexityMedium, m2.AccessComplexityLow}
	V2Au = [3]m2.Authentication{m2.AuthenticationMultiple, m2.AuthenticationSingle, m2.AuthenticationNone}
	V2C  = [3]m2.ConfidentialityImpact{m2.ConfidentialityImpactNone, m2.ConfidentialityImpactPartial, m2.ConfidentialityImpactComplete}
	V2I  = [3]m2.IntegrityImpact{m2.IntegrityImpactNone, m2.IntegrityImpactPartial, m2.IntegrityImpactComplete}
	V2A  = [3]m2.AvailabilityImpact{m2.AvailabilityImpactNone, m2.AvailabilityImpactPartial, m2.AvailabilityImpactComplete}

	V2E  = [5]m2.Exploitability{m2.ExploitabilityUnproven, m2.ExploitabilityProofOfConcept, m2.ExploitabilityFunctional, m2.ExploitabilityHigh, m2.ExploitabilityNotDefined}
	V2RL = [5]m2.RemediationLevel{m2.RemediationLevelOfficialFix, m2.RemediationLevelTemporaryFix, m2.RemediationLevelWorkaround, m2.RemediationLevelUnavailable, m2.RemediationLevelNotDefined}
	V2RC = [4]m2.ReportConfidence{m2.ReportConfidenceUnconfirmed, m2.ReportConfidenceUncorroborated, m2.ReportConfidenceConfirmed, m2.ReportConfidenceNotDefined}

	V2CDP = [6]m2.CollateralDamagePotential{m2.CollateralDamagePotentialNon, m2.CollateralDamagePotentialLow, m2.CollateralDamagePotentialLowMedium, m2.CollateralDamagePotentialMediumHigh, m2.CollateralDamagePotentialHigh, m2.CollateralDamagePotentialNotDefined}
	V2TD  = [5]m2.TargetDistribution{m2.TargetDistributionNon, m2.TargetDistributionLow, m2.TargetDistributionMedium, m2.TargetDistributionHigh, m2.TargetDistributionNotDefined}
	V2CR  = [4]m2.ConfidentialityRequirement{m2.ConfidentialityRequirementLow, m2.ConfidentialityRequirementMedium, m2.ConfidentialityRequirementHigh, m2.ConfidentialityRequirementNotDefined}
	V2IR  = [4]m2.IntegrityRequirement{m2.IntegrityRequirementLow, m2.IntegrityRequirementMedium, m2.IntegrityRequirementHigh, m2.IntegrityRequirementNotDefined}
	V2AR  = [4]m2.AvailabilityRequirement{m2.AvailabilityRequirementLow, m2.AvailabilityRequirementMedium, m2.AvailabilityRequirementHigh, m2.AvailabilityRequirementNotDefined}
)

func SetV2Base(b *m2.Base, x [6]int) {
	b.AV, b.AC, b.Au = V2AV[x[0]], V2AC[x[1]], V2Au[x[2]]
	b.C, b.I, b.A = V2C[x[3]], V2I[x[4]], V2A[x[5]]
}

func SetV2Temporal(t *m2.Temporal, x [3]int) {
	t.E, t.RL, t.RC = V2E[x[0]], V2RL[x[1]], V2RC[x[2]]
}

func SetV2Env(e *m2.Environmental, x [5]int) {
	e.CDP, e.TD, e.CR, e.IR, e.AR = V2CDP[x[0]], V2TD[x[1]], V2CR[x[2]], V2IR[x[3]], V2AR[x[4]]
}

// ---- generic access by metric name and specification index ---------------------------

// V3Value returns the integer value of the library constant bound to the idx-th code of
// the named v3 metric ("Ver" for the version); ok=false for unknown names.
func V3Value(name string, idx int) (int64, bool) {
	switch name {
	case "Ver":
		return int64(V3Ver[idx]), true
	case "AV":
		return int64(V3AV[idx]), true
	case "AC":
		return int64(V3AC[idx]), true
	case "PR":
		return int64(V3PR[idx]), true
	case "UI":
		return int64(V3UI[idx]), true
	case "S":
		return int64(V3S[idx]), true
	case "C":
		return int64(V3C[idx]), true
	case "I":
		return int64(V3I[idx]), true
	case "A":
		return int64(V3A[idx]), true
	case "E":
		return int64(V3E[idx]), true
	case "RL":
		return int64(V3RL[idx]), true
	case "RC":
		return int64(V3RC[idx]), true
	case "CR":
		return int64(V3CR[idx]), true
	case "IR":
		return int64(V3IR[idx]), true
	case "AR":
		return int64(V3AR[idx]), true
	case "MAV":
		return int64(V3MAV[idx]), true
	case "MAC":
		return int64(V3MAC[idx]), true
	case "MPR":
		return int64(V3MPR[idx]), true
	case "MUI":
		return int64(V3MUI[idx]), true
	case "MS":
		return int64(V3MS[idx]), true
	case "MC":
		return int64(V3MC[idx]), true
	case "MI":
		return int64(V3MI[idx]), true
	case "MA":
		return int64(V3MA[idx]), true
	}
	return 0, false
}

func V2Value(name string, idx int) (int64, bool) {
	switch name {
	case "AV":
		return int64(V2AV[idx]), true
	case "AC":
		return int64(V2AC[idx]), true
	case "Au":
		return int64(V2Au[idx]), true
	case "C":
		return int64(V2C[idx]), true
	case "I":
		return int64(V2I[idx]), true
	case "A":
		return int64(V2A[idx]), true
	case "E":
		return int64(V2E[idx]), true
	case "RL":
		return int64(V2RL[idx]), true
	case "RC":
		return int64(V2RC[idx]), true
	case "CDP":
		return int64(V2CDP[idx]), true
	case "TD":
		return int64(V2TD[idx]), true
	case "CR":
		return int64(V2CR[idx]), true
	case "IR":
		return int64(V2IR[idx]), true
	case "AR":
		return int64(V2AR[idx]), true
	}
	return 0, false
}
