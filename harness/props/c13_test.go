package props

import (
	"fmt"
	"testing"

	m2 "github.com/goark/go-cvss/v2/metric"
	m3 "github.com/goark/go-cvss/v3/metric"
	"verif/harness/bind"
	"verif/harness/gen"
	"verif/harness/spec"
)

// C13 — Not Defined metrics are score-neutral; temporal never exceeds base.
// The oracle relates library results to each other only (no reference model).

func c13v3(base, temp, env float64, f fieldCase3) string {
	if temp > base {
		return fmt.Sprintf("temporal score %v exceeds base score %v", temp, base)
	}
	if f.T == [3]int{} && temp != base {
		return fmt.Sprintf("E, RL, RC all Not Defined but temporal score %v != base score %v", temp, base)
	}
	if f.E == [11]int{} && !(f.Ver == 1 && f.B[4] == 1) && env != temp {
		return fmt.Sprintf("all environmental metrics Not Defined but environmental score %v != temporal score %v", env, temp)
	}
	return ""
}

var checkC13v3Fields = register("C13/v3fields", func(f fieldCase3) string {
	if !inRange3(f) {
		return ""
	}
	e := build3(f)
	return c13v3(e.Base.Score(), e.Temporal.Score(), e.Score(), f)
})

// the same relations on an object that held (and was asked about) other fields before: the
// sweep below re-uses one object, and a mismatch a fresh object does not reproduce is
// re-examined in this form instead of being dropped
var checkC13v3Re = register("C13/v3reassigned", func(r reassignCase3) string {
	if !inRange3(r.Prev) || !inRange3(r.Cur) {
		return ""
	}
	e := build3(r.Prev)
	e.Base.Score()
	e.Temporal.Score()
	e.Score()
	bind.SetV3Base(e.Base, r.Cur.Ver, r.Cur.B)
	bind.SetV3Temporal(e.Temporal, r.Cur.T)
	bind.SetV3Env(e, r.Cur.E)
	if m := c13v3(e.Base.Score(), e.Temporal.Score(), e.Score(), r.Cur); m != "" {
		return "on an object queried before its fields were assigned: " + m
	}
	return ""
})

// decoded form: the environmental decoder reads the vector (X omitted or spelled out)
var checkC13v3Decode = register("C13/v3decode", func(c scoreCase3) string {
	ref, ok := spec.AcceptV3(c.Input, spec.Environmental)
	if !ok {
		return ""
	}
	o, err := decodeCase3(spec.Environmental, c)
	if err != nil || o.isNil() {
		return fmt.Sprintf("well-formed vector rejected: %v", err)
	}
	x := spec.IdxV3(ref)
	return c13v3(o.E.BaseMetrics().Score(), o.E.TemporalMetrics().Score(), o.E.Score(), fieldCase3{Ver: x.Ver, B: x.B, T: x.T, E: x.E})
})

func c13v2(base, temp, env float64, f fieldCase2) string {
	if temp > base {
		return fmt.Sprintf("temporal score %v exceeds base score %v", temp, base)
	}
	if (!f.HasT || f.T == [3]int{4, 4, 3}) && temp != base {
		return fmt.Sprintf("E, RL, RC all Not Defined (or absent) but temporal score %v != base score %v", temp, base)
	}
	if f.HasE && f.E[1] == 0 && env != 0 {
		return fmt.Sprintf("Target Distribution None but environmental score is %v", env)
	}
	return ""
}

var checkC13v2Fields = register("C13/v2fields", func(f fieldCase2) string {
	if !inRange2(f) {
		return ""
	}
	e, err := build2(f)
	if err != nil {
		return fmt.Sprintf("shape template rejected: %v", err)
	}
	return c13v2(e.Base.Score(), e.Temporal.Score(), e.Score(), f)
})

var checkC13v2Re = register("C13/v2reassigned", func(r reassignCase2) string {
	if !inRange2(r.Prev) || !inRange2(r.Cur) || r.Prev.HasT != r.Cur.HasT || r.Prev.HasE != r.Cur.HasE {
		return ""
	}
	e, err := build2(r.Prev)
	if err != nil {
		return fmt.Sprintf("shape template rejected: %v", err)
	}
	e.Base.Score()
	e.Temporal.Score()
	e.Score()
	f := r.Cur
	bind.SetV2Base(e.Base, f.B)
	if f.HasT {
		bind.SetV2Temporal(e.Temporal, f.T)
	}
	if f.HasE {
		bind.SetV2Env(e, f.E)
	}
	if m := c13v2(e.Base.Score(), e.Temporal.Score(), e.Score(), f); m != "" {
		return "on an object queried before its fields were assigned: " + m
	}
	return ""
})

var checkC13v2Decode = register("C13/v2decode", func(c scoreCase2) string {
	ref, ok := spec.AcceptV2(c.Input, spec.Environmental)
	if !ok {
		return ""
	}
	o, err := decodeCase2(spec.Environmental, c)
	if err != nil || o.isNil() {
		return fmt.Sprintf("canonical vector rejected: %v", err)
	}
	var f fieldCase2
	f.B, f.HasT, f.T, f.HasE, f.E = spec.IdxV2(ref)
	return c13v2(o.E.Base.Score(), o.E.Temporal.Score(), o.E.Score(), f)
})

func TestC13(t *testing.T) {
	c := begin(t, "C13")
	defer c.end()
	c.rec.F.Rule = "v3: all 518,400 version x base x temporal combinations as field-built objects with every environmental metric Not Defined (temporal <= base; all-X temporal == base; all-X environmental == temporal unless v3.1 and S:C) and all 5,184 base vectors through the environmental decoder with the optional metrics omitted and with X spelled out; v2: all 73,629 base x temporal vectors through Decode (temporal <= base, absent or all-ND group == base) and the Target Distribution None slice (quick: 4,000,000 seeded pseudo-random bijective sample of 729 x 101 x 384; thorough: complete 28,273,536). The v3 field sweep re-uses one object; a mismatch a fresh object does not reproduce is re-examined as an assign-after-query case. Non-trivial: base > 0 with a defined temporal metric (for <=), or an all-Not-Defined twin (for neutrality), or a TD:N vector with non-zero adjusted score potential; enumerated points are distinct by construction."
	c.rec.F.Assumptions = []string{"metamorphic oracle: only relations between library scores are asserted"}
	var evals, nt int64
	nviol := 0
	cl := map[string]int64{}
	e := m3.NewEnvironmental()
	var prev3 fieldCase3
	havePrev := false
	forEachV3Base(func(i int, x spec.V3Idx) {
		if nviol > 0 || !mine(i) {
			return
		}
		bind.SetV3Base(e.Base, x.Ver, x.B)
		bs := e.Base.Score()
		for ti := 0; ti < 100; ti++ {
			f := fieldCase3{Ver: x.Ver, B: x.B, T: [3]int{ti / 20, (ti / 4) % 5, ti % 4}}
			bind.SetV3Temporal(e.Temporal, f.T)
			ts, es := e.Temporal.Score(), e.Score()
			evals++
			if bs > 0 && ti != 0 {
				nt++
			}
			if c13v3(bs, ts, es, f) != "" {
				evalEnum(c, "v3fields", f.withText(), checkC13v3Fields, &nviol)
				if havePrev && nviol == 0 {
					evalEnum(c, "v3reassigned", reassignCase3{Prev: prev3.withText(), Cur: f.withText()}, checkC13v3Re, &nviol)
				}
			}
			prev3, havePrev = f, true
			if x.Ver == 1 && x.B[4] == 1 {
				cl["v3.1+S:C (environmental neutrality not asserted)"]++
			}
		}
		// decoded twins: omitted and explicit X
		for _, spell := range []bool{false, true} {
			vec := gen.V3FromIdx(x, spec.Environmental, spell)
			evals++
			nt++
			cl["v3-decoded-all-X-twin"]++
			cs := scoreCase3{Level: 2, NilRecv: spell, PreQuery: !spell && i%2 == 0, Input: vec.String()}
			if c.rec.SampleCount() < 3 && i%1301 == 3 {
				c.rec.Sample(cs)
			}
			evalEnum(c, "v3decode", cs, checkC13v3Decode, &nviol)
		}
	})
	// ---- v2 -------------------------------------------------------------------------------------
	forEachV2BaseTemporal(func(i int, b [6]int, hasT bool, tt [3]int) {
		if nviol > 0 || !mine(i) {
			return
		}
		f := fieldCase2{B: b, HasT: hasT, T: tt}.withText()
		evals++
		zero := b[3] == 0 && b[4] == 0 && b[5] == 0
		if !zero {
			nt++
		}
		if !hasT || tt == [3]int{4, 4, 3} {
			cl["v2-temporal-absent-or-all-ND"]++
		}
		evalEnum(c, "v2decode", scoreCase2{Level: 2, NilRecv: i%2 == 1, PreQuery: i%4 == 0, Input: f.Vector}, checkC13v2Decode, &nviol)
	})
	{
		eNoT, err1 := shape2(false, true)
		eT, err2 := shape2(true, true)
		if err1 != nil || err2 != nil {
			c.violation("v2fields", fieldCase2{HasE: true}, "shape template rejected")
			return
		}
		prev2 := map[*m2.Environmental]fieldCase2{}
		const space = 729 * 101 * 384 // TD fixed to N: CDP x CR x IR x AR = 6 x 64
		one := func(n uint64) {
			ei := int(n % 384)
			n /= 384
			ti := int(n % 101)
			n /= 101
			f := fieldCase2{B: spec.V2BaseFromIndex(int(n)), HasE: true, E: [5]int{ei / 64, 0, (ei / 16) % 4, (ei / 4) % 4, ei % 4}}
			o := eNoT
			if ti > 0 {
				ti--
				f.HasT = true
				f.T = [3]int{ti / 20, (ti / 4) % 5, ti % 4}
				o = eT
				bind.SetV2Temporal(o.Temporal, f.T)
			}
			bind.SetV2Base(o.Base, f.B)
			bind.SetV2Env(o, f.E)
			evals++
			nt++
			cl["v2-TD:N"]++
			if s := o.Score(); s != 0 {
				evalEnum(c, "v2fields", f.withText(), checkC13v2Fields, &nviol)
				if p, seen := prev2[o]; seen && nviol == 0 {
					evalEnum(c, "v2reassigned", reassignCase2{Prev: p.withText(), Cur: f.withText()}, checkC13v2Re, &nviol)
				}
			}
			prev2[o] = f
			if c.rec.SampleCount() < 6 && n%97 == 1 && ei == 100 {
				c.rec.Sample(f.withText())
			}
		}
		if thorough() {
			for n := uint64(shard); n < space && nviol == 0; n += uint64(shards) {
				one(n)
			}
		} else {
			key := mix(uint64(seed), 0xc13)
			for k := uint64(shard); k < 4000000 && nviol == 0; k += uint64(shards) {
				one(permIndex(k, space, key))
			}
		}
	}
	c.rec.Bulk("relations", evals, nt, cl)
	if shard == 0 {
		c.rec.F.Exhaustive = append(c.rec.F.Exhaustive, "v3 version x base x temporal (518,400)", "v2 base x (temporal + absent) (73,629)")
		if thorough() {
			c.rec.F.Exhaustive = append(c.rec.F.Exhaustive, "v2 Target Distribution None slice (28,273,536)")
		}
	}
}
