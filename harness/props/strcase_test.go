package props

import (
	"fmt"
	"strconv"
	"strings"
	"unicode/utf8"

	m2 "github.com/goark/go-cvss/v2/metric"
	m3 "github.com/goark/go-cvss/v3/metric"

	"pgregory.net/rapid"
	"verif/harness/gen"
	"verif/harness/spec"
)

// strCase is one arbitrary input string offered to one of the six decoders.
type strCase struct {
	Ver     int    `json:"cvss_version"`  // 2 or 3
	Level   int    `json:"decoder_level"` // 0 base, 1 temporal, 2 environmental
	NilRecv bool   `json:"nil_receiver"`
	Input   []byte `json:"input_base64"`
	Text    string `json:"input_quoted"` // for the reader; Input is authoritative
	Expect  string `json:"expected_defect,omitempty"`
	// Prime: a string decoded (with a fresh decoder of the same level, result discarded)
	// immediately before Input — typically the valid vector Input was derived from. What a
	// decoder accepts must not depend on what was decoded before.
	Prime string `json:"decoded_before,omitempty"`
	// PreQuery: the decoder comes from the constructor and is queried completely (every
	// observer) before its Decode; what it then accepts must be the same.
	PreQuery bool `json:"queried_before_decode,omitempty"`
}

func newStrCase(ver int, level spec.Level, nilRecv bool, s string) strCase {
	return strCase{Ver: ver, Level: int(level), NilRecv: nilRecv, Input: []byte(s), Text: strconv.Quote(s)}
}

func (c strCase) key() string {
	return fmt.Sprintf("%d|%d|%v|%v|%s|%s", c.Ver, c.Level, c.NilRecv, c.PreQuery, c.Input, c.Prime)
}

func (c strCase) valid() bool {
	return (c.Ver == 2 || c.Ver == 3) && c.Level >= 0 && c.Level <= 2
}

// decodeAny runs the library decoder and reports (object is nil, error).
func decodeAny(c strCase) (isNil bool, err error) {
	if c.Prime != "" {
		if c.Ver == 2 {
			decode2(spec.Level(c.Level), c.Prime, false)
		} else {
			decode3(spec.Level(c.Level), c.Prime, false)
		}
	}
	if c.PreQuery && !c.NilRecv {
		return decodePreQueried(c)
	}
	if c.Ver == 2 {
		o, e := decode2(spec.Level(c.Level), string(c.Input), c.NilRecv)
		return o.isNil(), e
	}
	o, e := decode3(spec.Level(c.Level), string(c.Input), c.NilRecv)
	return o.isNil(), e
}

// decodePreQueried: constructor, every observer once, then the single Decode.
func decodePreQueried(c strCase) (bool, error) {
	lv := spec.Level(c.Level)
	in := string(c.Input)
	if c.Ver == 3 {
		switch lv {
		case spec.Base:
			r := m3.NewBase()
			snapViews(views3(r, nil, nil, lv))
			o, err := r.Decode(in)
			return o == nil, err
		case spec.Temporal:
			r := m3.NewTemporal()
			snapViews(views3(nil, r, nil, lv))
			o, err := r.Decode(in)
			return o == nil, err
		}
		r := m3.NewEnvironmental()
		snapViews(views3(nil, nil, r, lv))
		o, err := r.Decode(in)
		return o == nil, err
	}
	switch lv {
	case spec.Base:
		r := m2.NewBase()
		snapViews(views2(r, nil, nil, lv))
		o, err := r.Decode(in)
		return o == nil, err
	case spec.Temporal:
		r := m2.NewTemporal()
		snapViews(views2(nil, r, nil, lv))
		o, err := r.Decode(in)
		return o == nil, err
	}
	r := m2.NewEnvironmental()
	snapViews(views2(nil, nil, r, lv))
	o, err := r.Decode(in)
	return o == nil, err
}

func refAccept(c strCase) bool {
	var ok bool
	if c.Ver == 2 {
		_, ok = spec.AcceptV2(string(c.Input), spec.Level(c.Level))
	} else {
		_, ok = spec.AcceptV3(string(c.Input), spec.Level(c.Level))
	}
	return ok
}

func refDefects(c strCase) spec.DefectSet {
	if c.Ver == 2 {
		return spec.DefectsV2(string(c.Input), spec.Level(c.Level))
	}
	return spec.DefectsV3(string(c.Input), spec.Level(c.Level))
}

// drawStringCase draws an input for version ver from the shared generator mix and
// returns the case plus class labels. Mix: valid vectors of every level offered to every
// decoder, mutated vectors, single-defect vectors, arbitrary strings.
func drawStringCase(rt *rapid.T, ver int, maxAny int) (strCase, []string) {
	nilRecv := rapid.Bool().Draw(rt, "nilrecv")
	switch k := rapid.IntRange(0, 10).Draw(rt, "source"); {
	case k == 10: // structured hostile shapes: floods, long tokens, look-alikes, dense text
		dec := gen.Level().Draw(rt, "decoder")
		s, label := gen.RandomShape(rt, ver)
		return newStrCase(ver, dec, nilRecv, s), []string{"gen:shape", label}
	case k <= 1: // valid vector of some level at some decoder
		src := gen.Level().Draw(rt, "srclevel")
		dec := gen.Level().Draw(rt, "decoder")
		v := gen.Valid(ver, src).Draw(rt, "valid")
		cs := newStrCase(ver, dec, nilRecv, v.String())
		if !nilRecv && rapid.IntRange(0, 2).Draw(rt, "prequery") == 0 {
			cs.PreQuery = true
			return cs, []string{"gen:valid", "decoder-queried-before-decode"}
		}
		return cs, []string{"gen:valid"}
	case k <= 6:
		dec := gen.Level().Draw(rt, "decoder")
		s, labels, source := gen.MutatedFrom(rt, ver)
		cl := []string{"gen:mutated"}
		for _, l := range labels {
			cl = append(cl, "edit:"+l)
		}
		cs := newStrCase(ver, dec, nilRecv, s)
		if rapid.Bool().Draw(rt, "prime") {
			cs.Prime = source
			cl = append(cl, "primed-with-source-vector")
		}
		return cs, cl
	case k <= 8:
		s, lv, d, label, ok := gen.SingleDefect(rt, ver)
		if !ok {
			rt.Skip("inapplicable single-defect combination")
		}
		c := newStrCase(ver, lv, nilRecv, s)
		c.Expect = d.String()
		return c, []string{"gen:single-defect", "single:" + d.String() + ":" + strings.SplitN(label, ":", 2)[0]}
	default:
		dec := gen.Level().Draw(rt, "decoder")
		s, label := gen.AnyString(rt, maxAny)
		return newStrCase(ver, dec, nilRecv, s), []string{"gen:" + label}
	}
}

// editDistanceSmall tells whether the labels describe a near-valid input (<= 3 edits).
func nearValid(cl []string) bool {
	for _, l := range cl {
		if l == "gen:mutated" || l == "gen:single-defect" || l == "gen:shape" {
			return true
		}
	}
	return false
}

// representative vectors whose single-token neighbourhood is enumerated completely
func representatives(ver int) []spec.Vec {
	mk := func(ver string, toks ...string) spec.Vec {
		v := spec.Vec{Ver: ver}
		for _, t := range toks {
			i := strings.IndexByte(t, ':')
			v.Toks = append(v.Toks, spec.Tok{Name: t[:i], Value: t[i+1:]})
		}
		return v
	}
	if ver == 3 {
		return []spec.Vec{
			mk("3.1", "AV:N", "AC:L", "PR:N", "UI:N", "S:U", "C:H", "I:H", "A:H"),
			mk("3.0", "S:C", "AV:P", "AC:H", "PR:H", "UI:R", "C:N", "I:L", "A:N"),
			mk("3.1", "AV:A", "AC:L", "PR:L", "UI:N", "S:U", "C:L", "I:N", "A:H", "E:P", "RL:O", "RC:X"),
			mk("3.0", "AV:L", "AC:L", "PR:N", "UI:R", "S:C", "C:H", "I:N", "A:N", "RL:W"),
			mk("3.1", "AV:N", "AC:H", "PR:N", "UI:N", "S:U", "C:N", "I:N", "A:L", "E:F", "RL:T", "RC:R", "CR:H", "IR:X", "AR:L", "MAV:A", "MAC:X", "MPR:H", "MUI:R", "MS:C", "MC:N", "MI:X", "MA:H"),
			mk("3.0", "AV:N", "AC:L", "PR:N", "UI:N", "S:U", "C:H", "I:H", "A:H", "MS:X", "CR:M"),
		}
	}
	return []spec.Vec{
		mk("", "AV:N", "AC:L", "Au:N", "C:P", "I:P", "A:C"),
		mk("", "AV:L", "AC:H", "Au:M", "C:N", "I:N", "A:N"),
		mk("", "AV:A", "AC:M", "Au:S", "C:C", "I:N", "A:P", "E:POC", "RL:TF", "RC:UR"),
		mk("", "AV:N", "AC:L", "Au:N", "C:N", "I:N", "A:C", "E:ND", "RL:ND", "RC:ND"),
		mk("", "AV:N", "AC:L", "Au:N", "C:P", "I:P", "A:C", "E:H", "RL:U", "RC:C", "CDP:LM", "TD:M", "CR:H", "IR:ND", "AR:L"),
		mk("", "AV:L", "AC:M", "Au:S", "C:N", "I:N", "A:P", "CDP:N", "TD:ND", "CR:M", "IR:ND", "AR:ND"),
	}
}

func quoteShort(b []byte) string {
	s := string(b)
	if len(s) > 120 {
		s = s[:120] + "…"
	}
	if !utf8.ValidString(s) {
		return strconv.QuoteToASCII(s)
	}
	return strconv.Quote(s)
}

// forEachShape enumerates the deterministic hostile shapes (gen.Shapes) of two
// representative vectors per version at every decoder level.
func forEachShape(ver int, f func(i int, cs strCase, label string)) {
	reps := representatives(ver)
	i := 0
	// token moves and value runs for the other representatives too (all group shapes)
	for _, v := range []spec.Vec{reps[1], reps[2], reps[3], reps[5]} {
		for lv := spec.Base; lv <= spec.Environmental; lv++ {
			emit := func(s, label string) {
				i++
				f(i, newStrCase(ver, lv, i%2 == 0, s), label)
			}
			gen.Moves(v, emit)
			gen.ValueRuns(ver, v, emit)
		}
	}
	// moves of contiguous blocks (whole groups, halves of groups) for every representative
	for _, v := range reps {
		for lv := spec.Base; lv <= spec.Environmental; lv++ {
			gen.BlockMoves(v, func(s, label string) {
				i++
				f(i, newStrCase(ver, lv, i%2 == 0, s), label)
			})
		}
	}
	for _, v := range []spec.Vec{reps[0], reps[4]} {
		for lv := spec.Base; lv <= spec.Environmental; lv++ {
			gen.Shapes(ver, v, lv, thorough(), func(s, label string) {
				i++
				cs := newStrCase(ver, lv, i%2 == 0, s)
				if len(s) > 200 {
					cs.Text = fmt.Sprintf("(%d bytes) %s", len(s), quoteShort(cs.Input))
				}
				f(i, cs, label)
			})
		}
	}
}

func shapeClass(label string) string {
	p := strings.SplitN(label, ":", 3)
	if len(p) >= 2 {
		return "shape:" + p[0] + ":" + p[1]
	}
	return "shape:" + label
}
