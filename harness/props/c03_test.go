package props

import (
	"fmt"
	"testing"

	m3 "github.com/goark/go-cvss/v3/metric"
	"pgregory.net/rapid"
	"verif/harness/bind"
	"verif/harness/gen"
	"verif/harness/spec"
)

// C03 — v3 environmental score = FIRST environmental equations.

// fieldCase3 is a v3 object built by assigning exported fields (indices into the
// specification's code lists, see harness/spec).
type fieldCase3 struct {
	Ver  int     `json:"version_index"` // 0 = 3.0, 1 = 3.1
	B    [8]int  `json:"base"`          // AV AC PR UI S C I A
	T    [3]int  `json:"temporal"`      // E RL RC
	E    [11]int `json:"environmental"` // CR IR AR MAV MAC MPR MUI MS MC MI MA
	Text string  `json:"vector,omitempty"`
}

func (f fieldCase3) idx() spec.V3Idx { return spec.V3Idx{Ver: f.Ver, B: f.B, T: f.T, E: f.E} }

func (f fieldCase3) withText() fieldCase3 {
	f.Text = gen.V3FromIdx(f.idx(), spec.Environmental, true).String()
	return f
}

func build3(f fieldCase3) *m3.Environmental {
	e := m3.NewEnvironmental()
	bind.SetV3Base(e.Base, f.Ver, f.B)
	bind.SetV3Temporal(e.Temporal, f.T)
	bind.SetV3Env(e, f.E)
	return e
}

func inRange3(f fieldCase3) bool {
	dims := [8]int{4, 2, 3, 2, 2, 3, 3, 3}
	for i, d := range dims {
		if f.B[i] < 0 || f.B[i] >= d {
			return false
		}
	}
	for i, m := range spec.V3T() {
		if f.T[i] < 0 || f.T[i] >= len(m.Codes) {
			return false
		}
	}
	for i, m := range spec.V3E() {
		if f.E[i] < 0 || f.E[i] >= len(m.Codes) {
			return false
		}
	}
	return f.Ver == 0 || f.Ver == 1
}

var checkC03Fields = register("C03/fields", func(f fieldCase3) string {
	if !inRange3(f) {
		return ""
	}
	e := build3(f)
	want := spec.V3Env10(f.idx())
	got := e.Score()
	if k, grid := tenths(got); !grid || k != want {
		return fmt.Sprintf("environmental score %v, exact FIRST value %d.%d (inner roundup %d tenths)", fmtScore(got), want/10, want%10, spec.V3EnvInner10(spec.Resolve(f.idx())))
	}
	return ""
})

// reusedCase3: one object takes the fields of Prev, is scored, then takes the fields of Cur
// and is scored again — the second score must be Cur's.
type reusedCase3 struct {
	Prev fieldCase3 `json:"first_assignment"`
	Cur  fieldCase3 `json:"second_assignment"`
}

var checkC03Reused = register("C03/fields-reused", func(r reusedCase3) string {
	if !inRange3(r.Prev) || !inRange3(r.Cur) {
		return ""
	}
	e := build3(r.Prev)
	e.Score()
	e.Severity()
	bind.SetV3Base(e.Base, r.Cur.Ver, r.Cur.B)
	bind.SetV3Temporal(e.Temporal, r.Cur.T)
	bind.SetV3Env(e, r.Cur.E)
	want := spec.V3Env10(r.Cur.idx())
	got := e.Score()
	if k, grid := tenths(got); !grid || k != want {
		return fmt.Sprintf("after the same object was scored with other field values: environmental score %v, exact FIRST value %d.%d", fmtScore(got), want/10, want%10)
	}
	return ""
})

// c03Mismatch decides a fast-path mismatch on a reused object: a fresh object first; if
// that is right, the reused object was wrong because of what it was asked before.
func c03Mismatch(c *ctx, prev, cur fieldCase3, nviol *int) bool {
	before := *nviol
	if !evalEnum(c, "fields", cur.withText(), checkC03Fields, nviol) {
		return false
	}
	if *nviol == before {
		return evalEnum(c, "fields-reused", reusedCase3{Prev: prev.withText(), Cur: cur.withText()}, checkC03Reused, nviol)
	}
	return true
}

var checkC03Decode = register("C03/decode", func(c scoreCase3) string {
	ref, ok := spec.AcceptV3(c.Input, spec.Environmental)
	if !ok {
		return ""
	}
	o, err := decodeCase3(spec.Environmental, c)
	if err != nil || o.isNil() {
		return fmt.Sprintf("well-formed vector rejected by the environmental decoder: %v", err)
	}
	want := spec.V3Env10(spec.IdxV3(ref))
	got := o.E.Score()
	if k, grid := tenths(got); !grid || k != want {
		return fmt.Sprintf("environmental score %v, exact FIRST value %d.%d", fmtScore(got), want/10, want%10)
	}
	return ""
})

// assignedCase3: a vector that writes only some of the optional metrics is decoded by the
// environmental decoder (optionally scored), then the exported temporal / environmental
// fields are assigned the given values (indices into the code lists); the score must be the
// FIRST value for the fields the object holds then. What the decoder recorded about which
// tokens it saw must not matter any more.
type assignedCase3 struct {
	Input       string  `json:"decoded_vector"`
	NilRecv     bool    `json:"nil_receiver"`
	ScoredFirst bool    `json:"scored_before_assignment"`
	T           [3]int  `json:"temporal_assigned"`
	E           [11]int `json:"environmental_assigned"`
	// B: when set, the base fields are assigned as well (values by index, AV AC PR UI S C I A)
	B *[8]int `json:"base_assigned,omitempty"`
}

var checkC03Assigned = register("C03/decoded-then-assigned", func(c assignedCase3) string {
	ref, ok := spec.AcceptV3(c.Input, spec.Environmental)
	if !ok {
		return ""
	}
	x := spec.IdxV3(ref)
	f := fieldCase3{Ver: x.Ver, B: x.B, T: c.T, E: c.E}
	if c.B != nil {
		f.B = *c.B
	}
	if !inRange3(f) {
		return ""
	}
	o, err := decode3(spec.Environmental, c.Input, c.NilRecv)
	if err != nil || o.isNil() {
		return fmt.Sprintf("well-formed vector rejected by the environmental decoder: %v", err)
	}
	if c.ScoredFirst {
		o.E.Score()
		o.E.Severity()
	}
	if c.B != nil {
		bind.SetV3Base(o.E.Base, x.Ver, *c.B)
	}
	bind.SetV3Temporal(o.E.Temporal, c.T)
	bind.SetV3Env(o.E, c.E)
	want := spec.V3Env10(f.idx())
	got := o.E.Score()
	if k, grid := tenths(got); !grid || k != want {
		return fmt.Sprintf("decoded %q, then fields assigned to %s: environmental score %v, exact FIRST value %d.%d", c.Input, f.withText().Text, fmtScore(got), want/10, want%10)
	}
	return ""
})

// layer-2 index space: version x base x environmental
var envDims = [11]int{4, 4, 4, 5, 3, 4, 3, 3, 4, 4, 4}
var baseDims = [8]int{4, 2, 3, 2, 2, 3, 3, 3}

const envSpace = 4 * 4 * 4 * 5 * 3 * 4 * 3 * 3 * 4 * 4 * 4 // 2,211,840
const layer2Space = 2 * 2592 * envSpace                    // 11,466,178,560

func fromLayer2Index(n uint64) fieldCase3 {
	var f fieldCase3
	for i := 10; i >= 0; i-- {
		f.E[i] = int(n % uint64(envDims[i]))
		n /= uint64(envDims[i])
	}
	for i := 7; i >= 0; i-- {
		f.B[i] = int(n % uint64(baseDims[i]))
		n /= uint64(baseDims[i])
	}
	f.Ver = int(n % 2)
	return f
}

func c03Classes(f fieldCase3, cl map[string]int64) (nontrivial bool) {
	x := f.idx()
	eff := spec.Resolve(x)
	nx, nd := 0, 0
	for i := 3; i < 11; i++ {
		if f.E[i] == 0 {
			nx++
		} else {
			nd++
		}
	}
	if spec.V3EnvCapBinds(eff) {
		cl["cap-0.915-binds"]++
	}
	if eff.S == 1 {
		if f.Ver == 0 {
			cl["v3.0/changed"]++
		} else {
			cl["v3.1/changed"]++
		}
	}
	if f.E[7] == 0 && f.B[4] == 1 && f.E[5] != 0 {
		cl["MS:X+S:C+MPR-defined"]++
	}
	if f.E[7] != 0 && (f.E[7]-1) != f.B[4] && f.E[5] == 0 {
		cl["MS-overrides-S+MPR:X"]++
	}
	inner := spec.V3EnvInner10(eff)
	if inner == 0 {
		cl["modified-impact<=0"]++
	}
	return nx > 0 && nd > 0
}

func TestC03(t *testing.T) {
	c := begin(t, "C03")
	defer c.end()
	c.rec.F.Rule = "layer1 (complete): 2 versions x 64 (CR,IR,AR) x 27 (MC,MI,MA) x 2 (MS) x 48 (MAV,MAC,MPR,MUI) x 100 (E,RL,RC) = 33,177,600 objects with every Modified metric defined and every base metric set to a *different* value, built by assigning exported fields; layer2: the version x base x environmental product (11,466,178,560 points; quick: 16,000,000 points chosen by a seeded pseudo-random bijection (Feistel network) of the index space, distinct by construction; thorough: complete), temporal metrics chosen by a hash of the index; layer3: rapid well-formed environmental vectors through Decode (random order, omission, explicit X); layer4: for every version x base combination, the vector whose eight Modified metrics are written out equal to the base metrics, and its variants with exactly one Modified metric changed or one requirement raised, through Decode (quick: a quarter of the variants). layer5: on one object, for every pair of the 23 fields, every pair of start values and every pair of end values in three contexts: assign, score, re-assign exactly those two fields, score again. layer6: vectors writing none, one, two or all but one of the environmental metrics are decoded (sometimes scored), then other environmental fields are assigned each of their values, each written environmental metric is re-assigned every other value, and each base field is assigned every other value, and the score is compared with the exact model of the fields then held. Non-trivial: layer1 all with modified impact > 0; layer2 at least one Modified metric X (falls back to the base value) and at least one defined; layer3 at least one environmental metric defined."
	c.rec.F.Assumptions = []string{"reference model: exact rational MISS with 0.915 cap, version-specific changed-scope polynomial, exact exploitability with PR weights by effective scope, double Roundup (harness/spec)", "objects built from the exported constructor plus exported-field assignment, as property C03 allows"}

	// ---- layer 1 ---------------------------------------------------------------------
	{
		var evals, nt int64
		cl := map[string]int64{}
		nviol := 0
		e := m3.NewEnvironmental()
		idx := 0
		done := false
		var prev fieldCase3
		for ver := 0; ver < 2 && !done; ver++ {
			for cr := 0; cr < 4 && !done; cr++ {
				for ir := 0; ir < 4 && !done; ir++ {
					for ar := 0; ar < 4 && !done; ar++ {
						for mc := 1; mc < 4 && !done; mc++ {
							for mi := 1; mi < 4; mi++ {
								idx++
								if !mine(idx) {
									continue
								}
								for ma := 1; ma < 4; ma++ {
									for ms := 1; ms < 3; ms++ {
										for mav := 1; mav < 5; mav++ {
											for mac := 1; mac < 3; mac++ {
												for mpr := 1; mpr < 4; mpr++ {
													for mui := 1; mui < 3; mui++ {
														f := fieldCase3{Ver: ver,
															// base values disagree with the modified ones
															B: [8]int{mav % 4, mac % 2, mpr % 3, mui % 2, ms % 2, mc % 3, mi % 3, ma % 3},
															E: [11]int{cr, ir, ar, mav, mac, mpr, mui, ms, mc, mi, ma}}
														bind.SetV3Base(e.Base, f.Ver, f.B)
														bind.SetV3Env(e, f.E)
														inner := spec.V3EnvInner10(spec.Resolve(f.idx()))
														if inner > 0 {
															nt += 100
														}
														for te := 0; te < 5; te++ {
															for rl := 0; rl < 5; rl++ {
																for rc := 0; rc < 4; rc++ {
																	f.T = [3]int{te, rl, rc}
																	bind.SetV3Temporal(e.Temporal, f.T)
																	want := spec.V3TemporalOf10(inner, f.T, ver)
																	got := e.Score()
																	evals++
																	if got != float64(want)/10 {
																		if !c03Mismatch(c, prev, f, &nviol) {
																			done = true
																		}
																	}
																	prev = f
																}
															}
														}
														if evals%2000000 == 100 && c.rec.SampleCount() < 3 {
															c.rec.Sample(f.withText())
														}
														c03Classes(f, cl)
													}
												}
											}
										}
									}
								}
							}
						}
					}
				}
			}
		}
		c.rec.Bulk("layer1-effective-x-temporal", evals, nt, cl)
		if shard == 0 {
			c.rec.F.Exhaustive = append(c.rec.F.Exhaustive, "effective metrics x temporal (33,177,600 objects)")
		}
	}

	// ---- layer 2 ---------------------------------------------------------------------
	{
		var evals, nt int64
		cl := map[string]int64{}
		nviol := 0
		e := m3.NewEnvironmental()
		var prev fieldCase3
		run := func(n uint64) bool {
			f := fromLayer2Index(n)
			h := mix(uint64(seed), n)
			f.T = [3]int{int(h % 5), int((h >> 8) % 5), int((h >> 16) % 4)}
			bind.SetV3Base(e.Base, f.Ver, f.B)
			bind.SetV3Temporal(e.Temporal, f.T)
			bind.SetV3Env(e, f.E)
			want := spec.V3Env10(f.idx())
			got := e.Score()
			evals++
			if evals&255 == 0 { // class statistics on a 1/256 subsample keep the full product affordable
				if c03Classes(f, cl) {
					cl["layer2:subsample-nontrivial"]++
				}
				cl["layer2:subsampled"]++
			}
			nx, nd := 0, 0
			for i := 3; i < 11; i++ {
				if f.E[i] == 0 {
					nx++
				} else {
					nd++
				}
			}
			if nx > 0 && nd > 0 {
				nt++
			}
			if got != float64(want)/10 {
				ok := c03Mismatch(c, prev, f, &nviol)
				prev = f
				return ok
			}
			prev = f
			if c.rec.SampleCount() < 6 && evals%100003 == 7 {
				c.rec.Sample(f.withText())
			}
			return true
		}
		if thorough() {
			// complete product, split in contiguous blocks by shard
			per := uint64(layer2Space) / uint64(shards)
			lo := per * uint64(shard)
			hi := lo + per
			if shard == shards-1 {
				hi = layer2Space
			}
			for n := lo; n < hi; n++ {
				if !run(n) {
					break
				}
			}
			if shard == 0 {
				c.rec.F.Exhaustive = append(c.rec.F.Exhaustive, "version x base x environmental (11,466,178,560 objects)")
			}
		} else {
			total := uint64(16000000)
			key := mix(uint64(seed), 0xc03)
			for k := uint64(shard); k < total; k += uint64(shards) {
				n := permIndex(k, layer2Space, key)
				if !run(n) {
					break
				}
			}
		}
		c.rec.Bulk("layer2-base-x-environmental", evals, nt, cl)
	}

	// ---- layer 4: through the decoder, vectors whose Modified metrics *restate* the base
	// metrics (all eight explicit and equal), and the same with exactly one of them changed to
	// every other value; requirements neutral or one of them raised. A decoder that recognises
	// "nothing modified" must still follow the version's environmental formula.
	{
		nviol := 0
		var evals, nt int64
		forEachV3Base(func(i int, x spec.V3Idx) {
			if nviol > 0 || !mine(i) {
				return
			}
			restate := [11]int{0, 0, 0, x.B[0] + 1, x.B[1] + 1, x.B[2] + 1, x.B[3] + 1, x.B[4] + 1, x.B[5] + 1, x.B[6] + 1, x.B[7] + 1}
			variants := [][11]int{restate}
			for m := 3; m < 11; m++ {
				for val := 1; val < envDims[m]; val++ {
					if val != restate[m] {
						v := restate
						v[m] = val
						variants = append(variants, v)
					}
				}
			}
			req := restate
			req[i%3] = 1 + i%3 // one requirement H / M / L
			variants = append(variants, req)
			for vi, e := range variants {
				if !thorough() && vi > 0 && (i+vi)%4 != 0 { // quick: the restating vector of every base, a quarter of the variants
					continue
				}
				f := fieldCase3{Ver: x.Ver, B: x.B, E: e}
				f.T = [3]int{(i + vi) % 5, (i / 5) % 5, vi % 4}
				vec := gen.V3FromIdx(f.idx(), spec.Environmental, true)
				if vi%2 == 1 { // modified tokens ahead of the base tokens in every other variant
					vec.Toks = append(append([]spec.Tok(nil), vec.Toks[8:]...), vec.Toks[:8]...)
				}
				cs := scoreCase3{Level: 2, NilRecv: vi%3 == 0, PreQuery: vi%3 == 1, Input: vec.String()}
				evals++
				nt++
				if c.rec.SampleCount() < 12 && i%1733 == 0 && vi == 0 {
					c.rec.Sample(cs)
				}
				evalEnum(c, "decode", cs, checkC03Decode, &nviol)
			}
		})
		c.rec.Bulk("layer4-restating-vectors-decoded", evals, nt, map[string]int64{"layer4:restating-or-one-off": evals})
	}

	// ---- layer 5: two-field transitions on one object -------------------------------------
	// For every pair of the 23 fields (version, 8 base, 3 temporal, 11 environmental), every
	// pair of start values and every pair of end values, in three contexts: assign, score,
	// re-assign exactly those two fields, score again. A memo keyed by a lossy digest of the
	// fields can only go stale on a transition its digest does not see; single-field changes
	// and full re-assignments (layers 1-2) do not produce those.
	{
		var evals int64
		nviol := 0
		dims := []int{2, 4, 2, 3, 2, 2, 3, 3, 3}
		for _, m := range spec.V3T() {
			dims = append(dims, len(m.Codes))
		}
		for _, m := range spec.V3E() {
			dims = append(dims, len(m.Codes))
		}
		get := func(f *fieldCase3, i int) *int {
			switch {
			case i == 0:
				return &f.Ver
			case i <= 8:
				return &f.B[i-1]
			case i <= 11:
				return &f.T[i-9]
			}
			return &f.E[i-12]
		}
		contexts := []fieldCase3{
			{Ver: 1, B: [8]int{0, 0, 0, 0, 1, 0, 0, 0}, T: [3]int{0, 0, 0}, E: [11]int{0, 0, 0, 0, 0, 0, 0, 0, 0, 0, 0}},
			{Ver: 0, B: [8]int{2, 1, 1, 1, 0, 1, 0, 1}, T: [3]int{3, 2, 2}, E: [11]int{1, 3, 2, 2, 1, 3, 1, 2, 2, 3, 1}},
			{Ver: 1, B: [8]int{1, 0, 2, 0, 1, 0, 1, 1}, T: [3]int{2, 4, 3}, E: [11]int{3, 1, 1, 0, 2, 0, 2, 1, 0, 1, 3}},
		}
		k := 0
		for ci, ctx0 := range contexts {
			for i := 0; i < len(dims) && nviol == 0; i++ {
				for j := i + 1; j < len(dims) && nviol == 0; j++ {
					k++
					if !mine(k) {
						continue
					}
					for a1 := 0; a1 < dims[i]; a1++ {
						for a2 := 0; a2 < dims[j]; a2++ {
							prev := ctx0
							*get(&prev, i), *get(&prev, j) = a1, a2
							for b1 := 0; b1 < dims[i]; b1++ {
								for b2 := 0; b2 < dims[j]; b2++ {
									if (a1 == b1 && a2 == b2) || nviol > 0 {
										continue
									}
									cur := prev
									*get(&cur, i), *get(&cur, j) = b1, b2
									evals++
									evalEnum(c, "fields-reused", reusedCase3{Prev: prev, Cur: cur}, checkC03Reused, &nviol)
								}
							}
						}
					}
				}
			}
			_ = ci
		}
		c.rec.Bulk("layer5-two-field-transitions", evals, evals, map[string]int64{"layer5:two-field-transition": evals})
	}

	// ---- layer 6: partial vectors decoded, then fields assigned -----------------------------
	// The decoded vector writes none, one or two of the eleven environmental metrics (every
	// value, explicit X included), or all but one; then one or two *other* environmental fields
	// are assigned each of their values. Score arithmetic that consults the decoder's
	// bookkeeping (which tokens were seen) instead of the fields shows only on such objects.
	{
		var evals int64
		nviol := 0
		envM := spec.V3E()
		bases := []string{"CVSS:3.1/AV:N/AC:L/PR:L/UI:N/S:U/C:H/I:L/A:N", "CVSS:3.0/AV:A/AC:H/PR:H/UI:R/S:C/C:L/I:H/A:L/E:F/RL:W", "CVSS:3.1/AV:L/AC:L/PR:H/UI:N/S:C/C:H/I:H/A:H/RC:R"}
		k := 0
		run := func(vec string, written map[int]int) {
			ref, ok := spec.AcceptV3(vec, spec.Environmental)
			if !ok {
				return
			}
			x := spec.IdxV3(ref)
			for f := 0; f < 11 && nviol == 0; f++ {
				if _, w := written[f]; w {
					continue
				}
				for v := 1; v < len(envM[f].Codes) && nviol == 0; v++ {
					k++
					if !mine(k) {
						continue
					}
					cs := assignedCase3{Input: vec, NilRecv: k%5 == 0, ScoredFirst: k%3 == 0, T: x.T, E: x.E}
					cs.E[f] = v
					if k%4 == 0 { // a second field changes as well
						g := (f + 1 + k%10) % 11
						if _, w := written[g]; !w {
							cs.E[g] = 1 + (k/7)%(len(envM[g].Codes)-1)
						}
					}
					evals++
					evalEnum(c, "decoded-then-assigned", cs, checkC03Assigned, &nviol)
				}
			}
			// a metric the vector *did* write is assigned every other value (X included) ...
			for f, wv := range written {
				for v := 0; v < len(envM[f].Codes) && nviol == 0; v++ {
					k++
					if v == wv || !mine(k) {
						continue
					}
					cs := assignedCase3{Input: vec, NilRecv: k%5 == 0, ScoredFirst: k%3 == 0, T: x.T, E: x.E}
					cs.E[f] = v
					evals++
					evalEnum(c, "decoded-then-assigned", cs, checkC03Assigned, &nviol)
				}
			}
			// ... and every base field is assigned every other value under the decoded
			// environmental metrics (a Modified metric that is X follows the new base value)
			for bf := 0; bf < 8; bf++ {
				for v := 0; v < baseDims[bf] && nviol == 0; v++ {
					k++
					if v == x.B[bf] || !mine(k) {
						continue
					}
					nb := x.B
					nb[bf] = v
					cs := assignedCase3{Input: vec, NilRecv: k%5 == 0, ScoredFirst: k%3 == 0, T: x.T, E: x.E, B: &nb}
					evals++
					evalEnum(c, "decoded-then-assigned", cs, checkC03Assigned, &nviol)
				}
			}
		}
		for _, b := range bases {
			run(b, map[int]int{}) // no environmental token at all
			for i := 0; i < 11; i++ {
				for vi := range envM[i].Codes { // one token, every value (X included)
					run(b+"/"+envM[i].Name+":"+envM[i].Codes[vi], map[int]int{i: vi})
				}
				for j := i + 1; j < 11; j++ { // two tokens, two hash-chosen value pairs
					for variant := 0; variant < 2; variant++ {
						h := mix(uint64(i*11+j), uint64(variant))
						vi, vj := int(h%uint64(len(envM[i].Codes))), int((h>>8)%uint64(len(envM[j].Codes)))
						run(b+"/"+envM[i].Name+":"+envM[i].Codes[vi]+"/"+envM[j].Name+":"+envM[j].Codes[vj], map[int]int{i: vi, j: vj})
					}
				}
				// all but metric i written (hash-chosen values)
				vec, wr := b, map[int]int{}
				for j := 0; j < 11; j++ {
					if j != i {
						vj := int(mix(uint64(i), uint64(j)) % uint64(len(envM[j].Codes)))
						vec += "/" + envM[j].Name + ":" + envM[j].Codes[vj]
						wr[j] = vj
					}
				}
				run(vec, wr)
			}
		}
		c.rec.Bulk("layer6-partial-vector-then-assignment", evals, evals, map[string]int64{"layer6:decoded-then-assigned": evals})
	}

	// ---- layer 3 ---------------------------------------------------------------------
	c.rapidStage("layer3-decode", pick(64000, 1000000), func(rt *rapid.T) {
		var vec spec.Vec
		if rapid.Bool().Draw(rt, "full") {
			vec = gen.FullV3(spec.Environmental, 70).Draw(rt, "vector")
			if rapid.Bool().Draw(rt, "shuffle") {
				vec.Toks = rapid.Permutation(vec.Toks).Draw(rt, "order")
			}
		} else {
			vec = gen.ValidV3(spec.Environmental).Draw(rt, "vector")
		}
		cs := scoreCase3{Level: 2, NilRecv: rapid.Bool().Draw(rt, "nilrecv"), PreQuery: rapid.IntRange(0, 3).Draw(rt, "prequery") == 0, Input: vec.String()}
		x := spec.IdxV3(vec)
		nd := 0
		for _, v := range x.E {
			if v != 0 {
				nd++
			}
		}
		c.rec.Case("layer3-decode", cs.Input, nd > 0, fmt.Sprintf("layer3:env-defined=%d", min(nd, 4)))
		if c.rec.SampleCount() < 10 {
			c.rec.Sample(cs)
		}
		evalCase(c, rt, "decode", cs, checkC03Decode)
	})
	c.rec.SetExtra("roundup_readings_disagreements", spec.RoundupDisagreements.Load())
}
