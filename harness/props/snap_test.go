package props

import (
	"fmt"
	"reflect"
	"sort"
	"strings"

	"verif/harness/spec"
)

// snapshot of everything observable about a decoded object: exported fields (through
// reflection on the field names) and every query result at every level view.
type viewSnap struct {
	Name   string
	Score  float64
	Sev    string
	GetErr string
	Enc    string
	EncErr string
	Str    string
}

type snapshot struct {
	Fields map[string]int64
	Views  []viewSnap
	Empty  string // v2 IsEmpty() results of the non-nil temporal / environmental objects
}

func errStr(err error) string {
	if err == nil {
		return ""
	}
	ms := matching(err)
	var n []string
	for _, m := range ms {
		n = append(n, m.name)
	}
	return "error:" + strings.Join(n, "+")
}

func snapViews(vs []view) []viewSnap {
	var out []viewSnap
	for _, v := range vs {
		enc, eerr := v.encode()
		out = append(out, viewSnap{Name: v.name, Score: v.score(), Sev: v.sev(), GetErr: errStr(v.getErr()), Enc: enc, EncErr: errStr(eerr), Str: v.str()})
	}
	return out
}

// exportedInts collects the exported integer-kind fields of the pointed-to struct and of
// its embedded (pointer) structs.
func exportedInts(ptr any, into map[string]int64) {
	v := reflect.ValueOf(ptr)
	if v.Kind() != reflect.Ptr || v.IsNil() {
		return
	}
	v = v.Elem()
	t := v.Type()
	for i := 0; i < t.NumField(); i++ {
		f := t.Field(i)
		if f.Anonymous {
			if v.Field(i).Kind() == reflect.Ptr && !v.Field(i).IsNil() {
				exportedInts(v.Field(i).Interface(), into)
			}
			continue
		}
		if !f.IsExported() {
			continue
		}
		if k := v.Field(i).Kind(); k >= reflect.Int && k <= reflect.Int64 {
			into[f.Name] = v.Field(i).Int()
		}
	}
}

func snap3(o obj3) snapshot {
	s := snapshot{Fields: map[string]int64{}}
	switch o.level {
	case spec.Base:
		exportedInts(o.B, s.Fields)
		s.Views = snapViews(views3(o.B, nil, nil, o.level))
	case spec.Temporal:
		exportedInts(o.T, s.Fields)
		s.Views = snapViews(views3(nil, o.T, nil, o.level))
	default:
		exportedInts(o.E, s.Fields)
		s.Views = snapViews(views3(nil, nil, o.E, o.level))
	}
	return s
}

func snap2(o obj2) snapshot {
	s := snapshot{Fields: map[string]int64{}}
	switch o.level {
	case spec.Base:
		exportedInts(o.B, s.Fields)
		s.Views = snapViews(views2(o.B, nil, nil, o.level))
	case spec.Temporal:
		exportedInts(o.T, s.Fields)
		s.Views = snapViews(views2(nil, o.T, nil, o.level))
		if o.T != nil {
			s.Empty = fmt.Sprintf("T:%v", o.T.IsEmpty())
		}
	default:
		exportedInts(o.E, s.Fields)
		s.Views = snapViews(views2(nil, nil, o.E, o.level))
		if o.E != nil {
			s.Empty = fmt.Sprintf("T:%v E:%v", o.E.Temporal.IsEmpty(), o.E.IsEmpty())
		}
	}
	return s
}

// diff describes the first difference between two snapshots ("" when equal).
func (a snapshot) diff(b snapshot) string {
	var names []string
	for k := range a.Fields {
		names = append(names, k)
	}
	for k := range b.Fields {
		if _, ok := a.Fields[k]; !ok {
			names = append(names, k)
		}
	}
	sort.Strings(names)
	for _, k := range names {
		if a.Fields[k] != b.Fields[k] {
			return fmt.Sprintf("field %s: %d vs %d", k, a.Fields[k], b.Fields[k])
		}
	}
	if a.Empty != b.Empty {
		return fmt.Sprintf("IsEmpty: %s vs %s", a.Empty, b.Empty)
	}
	if len(a.Views) != len(b.Views) {
		return fmt.Sprintf("%d vs %d views", len(a.Views), len(b.Views))
	}
	for i := range a.Views {
		if a.Views[i] != b.Views[i] {
			return fmt.Sprintf("view %s: %+v vs %+v", a.Views[i].Name, a.Views[i], b.Views[i])
		}
	}
	return ""
}
