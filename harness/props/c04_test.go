package props

import (
	"fmt"
	"testing"

	"pgregory.net/rapid"
	"verif/harness/gen"
	"verif/harness/spec"
)

// C04 — v2 base and temporal scores = FIRST v2 equations (halves may go either way).

type scoreCase2 struct {
	Level   int    `json:"decoder_level"`
	NilRecv bool   `json:"nil_receiver"`
	Input   string `json:"input"`
	// PreQuery: constructor result queried completely before its single Decode (see scoreCase3)
	PreQuery bool `json:"queried_before_decode,omitempty"`
}

func decodeCase2(level spec.Level, c scoreCase2) (obj2, error) {
	if c.PreQuery && !c.NilRecv {
		return decode2Pre(level, c.Input)
	}
	return decode2(level, c.Input, c.NilRecv)
}

func fmtSet(s spec.TSet) string {
	var p []string
	for _, e := range s.Elems() {
		p = append(p, fmt.Sprintf("%.1f", float64(e)/10))
	}
	return fmt.Sprintf("%v", p)
}

var checkC04 = register("C04/decode", func(c scoreCase2) string {
	level := spec.Level(c.Level)
	ref, ok := spec.AcceptV2(c.Input, level)
	if !ok {
		return ""
	}
	o, err := decodeCase2(level, c)
	if err != nil || o.isNil() {
		return fmt.Sprintf("canonical v2 vector rejected by the %v decoder: %v", level, err)
	}
	b, hasT, t, _, _ := spec.IdxV2(ref)
	knownMsg := ""
	// ---- base score, observed at every level
	var baseScore float64
	switch level {
	case spec.Base:
		baseScore = o.B.Score()
	case spec.Temporal:
		baseScore = o.T.Base.Score()
	default:
		baseScore = o.E.Base.Score()
	}
	kb, grid := tenths(baseScore)
	if !grid {
		return fmt.Sprintf("base score %v is not a multiple of 0.1", fmtScore(baseScore))
	}
	admBase := spec.V2Base(b)
	effBase := admBase
	if !admBase.Has(kb) {
		lib, listed := kfLookup("KF-1", v2BaseKey(b))
		if !listed || lib != kb {
			return fmt.Sprintf("base score %v, FIRST v2 equation on unrounded sub-scores admits %s (exact %s)", fmtScore(baseScore), fmtSet(admBase), spec.V2BaseExact(b).FloatString(5))
		}
		knownMsg = known("KF-1", fmt.Sprintf("%s: library base %.1f, specification %s", v2BaseKey(b), float64(kb)/10, fmtSet(admBase)))
		effBase = spec.TSet{}.With(lib)
	}
	if level == spec.Base {
		return knownMsg
	}
	// ---- temporal score
	var tempScore float64
	if level == spec.Temporal {
		tempScore = o.T.Score()
	} else {
		tempScore = o.E.Temporal.Score()
	}
	kt, grid := tenths(tempScore)
	if !grid {
		return fmt.Sprintf("temporal score %v is not a multiple of 0.1", fmtScore(tempScore))
	}
	adm := effBase
	if hasT {
		adm = effBase.Map(func(k int) spec.TSet { return spec.V2TemporalOf(k, t) })
	}
	if !adm.Has(kt) {
		return fmt.Sprintf("temporal score %v, admissible %s (from base %s)", fmtScore(tempScore), fmtSet(adm), fmtSet(effBase))
	}
	return knownMsg
})

func c04Labels(b [6]int, hasT bool, t [3]int) (bool, []string) {
	var cl []string
	zero := b[3] == 0 && b[4] == 0 && b[5] == 0
	if b[2] == 0 {
		cl = append(cl, "Au:M")
	}
	if b[1] == 1 {
		cl = append(cl, "AC:M")
	}
	if b[3] == 1 {
		cl = append(cl, "C:P")
	}
	if spec.V2Base(b).Len() > 1 {
		cl = append(cl, "base-exact-half")
	}
	if hasT {
		t3 := spec.V2T()
		for i := 0; i < 3; i++ {
			cl = append(cl, t3[i].Name+":"+t3[i].Codes[t[i]])
		}
		if spec.V2Temporal(b, hasT, t).Len() > 1 {
			cl = append(cl, "temporal-exact-half")
		}
	} else {
		cl = append(cl, "temporal-group-absent")
	}
	if zero {
		cl = append(cl, "zero-impact")
	}
	return !zero, cl
}

// forEachV2BaseTemporal enumerates the 729 x 101 base/temporal combinations.
func forEachV2BaseTemporal(f func(i int, b [6]int, hasT bool, t [3]int)) {
	i := 0
	for bi := 0; bi < 729; bi++ {
		b := spec.V2BaseFromIndex(bi)
		f(i, b, false, [3]int{})
		i++
		for e := 0; e < 5; e++ {
			for rl := 0; rl < 5; rl++ {
				for rc := 0; rc < 4; rc++ {
					f(i, b, true, [3]int{e, rl, rc})
					i++
				}
			}
		}
	}
}

func TestC04(t *testing.T) {
	c := begin(t, "C04")
	defer c.end()
	c.rec.F.Rule = "complete enumeration of the 729 x (100 + group absent) = 73,629 canonical v2 vectors, each decoded by every decoder whose level includes its groups (base vectors by all three, temporal vectors by the temporal and environmental decoder; constructor and nil receiver alternate); rapid adds random vectors with an environmental group appended for the environmental decoder. Non-trivial = non-zero impact; enumerated (vector, decoder) pairs are distinct by construction, rapid cases by hash. A quarter of the constructor-made decoders have every observer of every view called once before their single Decode (queried_before_decode)."
	c.rec.F.Assumptions = []string{"reference model: exact rational Impact/Exploitability (unrounded), f(Impact), round-to-1-decimal as a set (both neighbours on an exact half), temporal = rounding of each admissible base tenth times E x RL x RC", "known finding KF-1 (known_findings.json): deviations on its 22 listed base vectors are excused only when the library value equals the listed tenth (base) or its exact propagation (temporal)"}
	nviol := 0
	var evals, nt int64
	classes := map[string]int64{}
	stop := false
	forEachV2BaseTemporal(func(i int, b [6]int, hasT bool, tt [3]int) {
		if stop || !mine(i) {
			return
		}
		isNT, cl := c04Labels(b, hasT, tt)
		input := gen.V2FromIdx(b, hasT, tt, false, [5]int{}).String()
		lo := spec.Base
		if hasT {
			lo = spec.Temporal
		}
		for lv := lo; lv <= spec.Environmental; lv++ {
			cs := scoreCase2{Level: int(lv), NilRecv: (i+int(lv))%2 == 0, PreQuery: (i+int(lv))%4 == 1, Input: input}
			evals++
			if isNT {
				nt++
			}
			for _, k := range cl {
				classes[k]++
			}
			if c.rec.SampleCount() < 4 && i%9973 == 5 {
				c.rec.Sample(cs)
			}
			if !evalEnum(c, "decode", cs, checkC04, &nviol) {
				stop = true
				return
			}
		}
	})
	c.rec.Bulk("enum", evals, nt, classes)
	if shard == 0 {
		c.rec.F.Exhaustive = append(c.rec.F.Exhaustive, "base x (temporal + absent) (73,629 vectors) x applicable decoders")
	}
	c.rapidStage("rapid", pick(64000, 1000000), func(rt *rapid.T) {
		lv := gen.Level().Draw(rt, "decoder")
		vec := gen.ValidV2(lv).Draw(rt, "vector")
		cs := scoreCase2{Level: int(lv), NilRecv: rapid.Bool().Draw(rt, "nilrecv"), PreQuery: rapid.IntRange(0, 3).Draw(rt, "prequery") == 0, Input: vec.String()}
		b, hasT, tt, hasE, _ := spec.IdxV2(vec)
		isNT, _ := c04Labels(b, hasT, tt)
		cl := []string{"rapid:decoder=" + lv.String()}
		if hasE {
			cl = append(cl, "rapid:with-environmental-group")
		}
		c.rec.Case("rapid", fmt.Sprintf("%d|%s", cs.Level, cs.Input), isNT, cl...)
		if c.rec.SampleCount() < 8 {
			c.rec.Sample(cs)
		}
		evalCase(c, rt, "decode", cs, checkC04)
	})
}
