package props

import (
	"bufio"
	"bytes"
	"errors"
	"fmt"
	"io"
	"os"
	"regexp"
	"strconv"
	"strings"
	"testing"
	"testing/iotest"
	"text/template"
	"text/template/parse"

	"github.com/goark/go-cvss/cvsserr"
	"github.com/goark/go-cvss/v3/report"
	"golang.org/x/text/language"
	"pgregory.net/rapid"
	"verif/harness/gen"
	"verif/harness/spec"
)

// C19 — template export renders user templates faithfully and fails cleanly.

type tplCase struct {
	Level     int    `json:"report_level"`
	Lang      string `json:"language_tag"`
	Vector    string `json:"vector"`
	Template  []byte `json:"template_base64"`
	Text      string `json:"template_quoted"`
	Reader    string `json:"reader"` // string | reader | onebyte | half | dataerr | fail:<k> | nil
	NilReport bool   `json:"nil_report"`
}

type exporter interface {
	ExportWith(io.Reader) (io.Reader, error)
	ExportWithString(string) (io.Reader, error)
}

type failingReader struct {
	data     []byte
	pos      int
	err      error
	withData bool // return the error together with the last bytes instead of on the next call
}

var errInjected = errors.New("injected read failure")

// failErrors: what real readers report when they fail (a truncated body, a closed pipe, a
// deadline …); every one of them is a failing reader.
var failErrors = map[string]error{
	"injected": errInjected, "unexpected-eof": io.ErrUnexpectedEOF, "closed-pipe": io.ErrClosedPipe, "no-progress": io.ErrNoProgress,
	"short-buffer": io.ErrShortBuffer, "deadline": os.ErrDeadlineExceeded, "closed": os.ErrClosed, "wrapped-eof": fmt.Errorf("read template: %w", io.EOF),
}

func (f *failingReader) Read(p []byte) (int, error) {
	if f.pos >= len(f.data) {
		return 0, f.err
	}
	n := copy(p, f.data[f.pos:])
	f.pos += n
	if f.withData && f.pos >= len(f.data) {
		return n, f.err
	}
	return n, nil
}

type limitedWriter struct {
	buf bytes.Buffer
	max int
}

var errTooLarge = errors.New("output larger than the harness limit")

func (w *limitedWriter) Write(p []byte) (int, error) {
	if w.buf.Len()+len(p) > w.max {
		return 0, errTooLarge
	}
	return w.buf.Write(p)
}

// cyclic reports whether the template set contains a call cycle (or calls its own root).
func cyclic(t *template.Template) bool {
	graph := map[string][]string{}
	var walk func(name string, n parse.Node)
	walk = func(name string, n parse.Node) {
		switch x := n.(type) {
		case *parse.ListNode:
			if x == nil {
				return
			}
			for _, c := range x.Nodes {
				walk(name, c)
			}
		case *parse.TemplateNode:
			graph[name] = append(graph[name], x.Name)
		case *parse.IfNode:
			walk(name, x.List)
			walk(name, x.ElseList)
		case *parse.RangeNode:
			walk(name, x.List)
			walk(name, x.ElseList)
		case *parse.WithNode:
			walk(name, x.List)
			walk(name, x.ElseList)
		}
	}
	for _, tt := range t.Templates() {
		if tt.Tree != nil && tt.Tree.Root != nil {
			walk(tt.Name(), tt.Tree.Root)
		}
	}
	state := map[string]int{}
	var dfs func(n string) bool
	dfs = func(n string) bool {
		switch state[n] {
		case 1:
			return true
		case 2:
			return false
		}
		state[n] = 1
		for _, m := range graph[n] {
			if dfs(m) {
				return true
			}
		}
		state[n] = 2
		return false
	}
	for n := range graph {
		if dfs(n) {
			return true
		}
	}
	return false
}

// stdlib is oracle A: what text/template itself yields for the template over the value.
func stdlib(data any, text string) (out []byte, err error, skip bool) {
	t, err := template.New("Repost").Parse(text)
	if err != nil {
		return nil, err, false
	}
	if cyclic(t) {
		return nil, nil, true
	}
	w := &limitedWriter{max: 8 << 20}
	if err := t.Execute(w, data); err != nil {
		if errors.Is(err, errTooLarge) {
			return nil, nil, true
		}
		return nil, err, false
	}
	return w.buf.Bytes(), nil, false
}

var simpleAction = regexp.MustCompile(`^\s*((?:\.[A-Za-z][A-Za-z0-9]*)+)\s*$`)

// simpleModel is oracle B: for templates made only of literal text and plain field
// references the expected output is computed by reflection. ok=false: not in that domain.
func simpleModel(rep any, text string) (out string, wantErr bool, ok bool) {
	var b strings.Builder
	for {
		i := strings.Index(text, "{{")
		if i < 0 {
			b.WriteString(text)
			return b.String(), wantErr, true
		}
		b.WriteString(text[:i])
		j := strings.Index(text[i+2:], "}}")
		if j < 0 {
			return "", false, false
		}
		act := text[i+2 : i+2+j]
		m := simpleAction.FindStringSubmatch(act)
		if m == nil || strings.ContainsAny(act, "-") {
			return "", false, false
		}
		s, found := strField(rep, strings.Split(m[1][1:], ".")...)
		if !found {
			// a missing field, or a path ending in a non-string (embedded report): not modelled
			if _, isStr := strField(rep, strings.Split(m[1][1:], ".")[0]); !isStr && strings.Count(m[1], ".") == 1 {
				wantErr = true
			} else {
				return "", false, false
			}
		}
		b.WriteString(s)
		text = text[i+2+j+2:]
	}
}

func buildExporter(c tplCase) (exporter, any, string) {
	level := spec.Level(c.Level)
	if c.NilReport {
		switch level {
		case spec.Base:
			return (*report.BaseReport)(nil), nil, ""
		case spec.Temporal:
			return (*report.TemporalReport)(nil), nil, ""
		}
		return (*report.EnvironmentalReport)(nil), nil, ""
	}
	if _, ok := spec.AcceptV3(c.Vector, level); !ok {
		return nil, nil, "skip"
	}
	o, err := decode3(level, c.Vector, false)
	if err != nil || o.isNil() {
		return nil, nil, fmt.Sprintf("well-formed vector rejected: %v", err)
	}
	rep := buildReport(o, level, report.WithOptionsLanguage(language.Make(c.Lang)))
	return rep.(exporter), rep, ""
}

func makeReader(kind string, text []byte) (io.Reader, bool /*fails*/, bool /*ok*/) {
	switch {
	case kind == "reader":
		return bytes.NewReader(text), false, true
	case kind == "onebyte":
		return iotest.OneByteReader(bytes.NewReader(text)), false, true
	case kind == "half":
		return iotest.HalfReader(bytes.NewReader(text)), false, true
	case kind == "dataerr":
		return iotest.DataErrReader(bytes.NewReader(text)), false, true
	case kind == "zero-reads": // (0, nil) between the data, which the io.Reader contract allows
		return &zeroReads{r: bytes.NewReader(text)}, false, true
	case kind == "plain": // nothing but Read: no WriteTo, Seek, Len or ReadAt to short-cut through
		return struct{ io.Reader }{bytes.NewReader(text)}, false, true
	case kind == "multi": // three pieces behind io.MultiReader (a short read at each seam)
		a, b := len(text)/3, 2*len(text)/3
		return io.MultiReader(bytes.NewReader(text[:a]), strings.NewReader(string(text[a:b])), struct{ io.Reader }{bytes.NewReader(text[b:])}), false, true
	case kind == "limited": // more bytes behind an io.LimitReader than the template has
		return io.LimitReader(bytes.NewReader(append(append([]byte(nil), text...), "{{.Nope}} beyond the limit"...)), int64(len(text))), false, true
	case kind == "pipe": // an io.Pipe fed in 7-byte writes by another goroutine
		pr, pw := io.Pipe()
		go func() {
			for i := 0; i < len(text); i += 7 {
				j := i + 7
				if j > len(text) {
					j = len(text)
				}
				if _, err := pw.Write(text[i:j]); err != nil {
					return
				}
			}
			pw.Close()
		}()
		return pr, false, true
	case strings.HasPrefix(kind, "fail:"): // fail:<k>[:<error name>[:with-data]]
		parts := strings.Split(kind[5:], ":")
		k, err := strconv.Atoi(parts[0])
		if err != nil || k < 0 {
			return nil, false, false
		}
		if k > len(text) {
			k = len(text)
		}
		fr := &failingReader{data: text[:k], err: errInjected}
		if len(parts) > 1 {
			e, ok := failErrors[parts[1]]
			if !ok {
				return nil, false, false
			}
			fr.err = e
		}
		fr.withData = len(parts) > 2 && parts[2] == "with-data" && k > 0
		return fr, true, true
	case kind == "nil":
		return nil, true, true
	case strings.HasPrefix(kind, "consumed-"):
		// a reader that was partially consumed before the export: its content is what remains
		junk := []byte("{{.Nope}} already consumed \x00\n")
		all := append(append([]byte(nil), junk...), text...)
		switch kind {
		case "consumed-strings":
			r := strings.NewReader(string(all))
			r.Seek(int64(len(junk)), io.SeekStart)
			return r, false, true
		case "consumed-bytes":
			r := bytes.NewReader(all)
			io.CopyN(io.Discard, r, int64(len(junk)))
			return r, false, true
		case "consumed-section":
			return io.NewSectionReader(bytes.NewReader(all), int64(len(junk)), int64(len(text))), false, true
		case "consumed-buffer":
			b := bytes.NewBuffer(all)
			b.Next(len(junk))
			return b, false, true
		case "consumed-bufio":
			r := bufio.NewReaderSize(bytes.NewReader(all), 16)
			r.Discard(len(junk))
			return r, false, true
		}
	}
	return nil, false, false
}

var checkC19 = register("C19/export", func(c tplCase) string {
	if c.Level < 0 || c.Level > 2 {
		return ""
	}
	exp, rep, msg := buildExporter(c)
	if msg == "skip" {
		return ""
	}
	if msg != "" {
		return msg
	}
	text := string(c.Template)
	var r io.Reader
	var err error
	readerFails := false
	if c.Reader == "string" {
		r, err = exp.ExportWithString(text)
	} else {
		in, fails, ok := makeReader(c.Reader, c.Template)
		if !ok {
			return ""
		}
		readerFails = fails
		r, err = exp.ExportWith(in)
	}
	isInvalidTpl := err != nil && errors.Is(err, cvsserr.ErrInvalidTemplate)
	isNullPtr := err != nil && errors.Is(err, cvsserr.ErrNullPointer)
	what := fmt.Sprintf("%v report, reader=%s, template %s", spec.Level(c.Level), c.Reader, quoteShort(c.Template))
	if err != nil && r != nil {
		return fmt.Sprintf("%s: error %v together with a non-nil output reader", what, err)
	}
	if err == nil && r == nil {
		return fmt.Sprintf("%s: neither output nor error", what)
	}
	// ---- expected failure classes --------------------------------------------------------------
	if c.NilReport {
		if err == nil {
			return fmt.Sprintf("%s: nil report exported without error", what)
		}
		// a nil report together with a failing reader or a template that does not even
		// parse exhibits two defects: either sentinel names one of them
		// (whether the template is bad is decided on a real report of the same level)
		cc := c
		cc.NilReport = false
		_, realRep, bmsg := buildExporter(cc)
		if bmsg != "" {
			return ""
		}
		_, perr, skip := stdlib(realRep, text)
		if readerFails || perr != nil || skip {
			if !isNullPtr && !isInvalidTpl {
				return fmt.Sprintf("%s: nil report with a bad template/reader must match the null-pointer or the invalid-template sentinel, got %v", what, err)
			}
			return ""
		}
		if !isNullPtr {
			return fmt.Sprintf("%s: nil report must yield an error matching the null-pointer sentinel, got %v", what, err)
		}
		return ""
	}
	if readerFails {
		if !isInvalidTpl {
			return fmt.Sprintf("%s: a nil or failing reader must yield an error matching the invalid-template sentinel, got output=%v err=%v", what, r != nil, err)
		}
		return ""
	}
	// ---- oracle A: differential against text/template --------------------------------------------
	want, werr, skip := stdlib(rep, text)
	if skip {
		return ""
	}
	if werr != nil {
		if !isInvalidTpl {
			return fmt.Sprintf("%s: text/template fails (%v) but the export returned output=%v err=%v (want an error matching the invalid-template sentinel)", what, werr, r != nil, err)
		}
		return ""
	}
	if err != nil {
		return fmt.Sprintf("%s: text/template renders %d bytes but the export failed: %v", what, len(want), err)
	}
	// the returned reader must own its bytes: a second export (other template, and the same
	// template on another report value) before the first output is read must not disturb it
	if r2, err2 := exp.ExportWithString("{{.Version}}|{{.Vector}}|second export " + strings.Repeat("#", len(want))); err2 == nil && r2 != nil {
		io.ReadAll(r2)
	}
	got, rerr := io.ReadAll(r)
	if rerr != nil {
		return fmt.Sprintf("%s: reading the returned reader failed: %v", what, rerr)
	}
	if !bytes.Equal(got, want) {
		return fmt.Sprintf("%s: output %s differs from text/template's %s", what, quoteShort(got), quoteShort(want))
	}
	// ---- oracle B: independent model for literal + plain-field templates ----------------------------
	if model, wantErr, ok := simpleModel(rep, text); ok && !wantErr {
		if string(got) != model {
			return fmt.Sprintf("%s: output %s differs from the field-by-field model %s", what, quoteShort(got), quoteShort([]byte(model)))
		}
	}
	return ""
})

// tplClass classifies a case for the evidence (valid / parse error / exec error).
func tplClass(c tplCase) (string, bool) {
	_, rep, msg := buildExporter(tplCase{Level: c.Level, Lang: c.Lang, Vector: c.Vector})
	if msg != "" {
		return "tpl:n/a", false
	}
	text := string(c.Template)
	t, err := template.New("Repost").Parse(text)
	hasAction := strings.Contains(text, "{{")
	if err != nil {
		return "tpl:parse-error", hasAction
	}
	if cyclic(t) {
		return "tpl:skipped-cyclic", false
	}
	w := &limitedWriter{max: 1 << 20}
	if err := t.Execute(w, rep); err != nil {
		return "tpl:exec-error", hasAction
	}
	if _, _, ok := simpleModel(rep, text); ok {
		return "tpl:valid+simple-model", hasAction
	}
	return "tpl:valid", hasAction
}

// zeroReads returns (0, nil) on every other call.
type zeroReads struct {
	r io.Reader
	n int
}

func (z *zeroReads) Read(p []byte) (int, error) {
	z.n++
	if z.n%2 == 1 {
		return 0, nil
	}
	return z.r.Read(p)
}

var readerKinds = []string{"string", "string", "string", "reader", "reader", "onebyte", "half", "dataerr", "fail", "fail", "nil", "consumed-strings", "consumed-bytes", "consumed-section", "consumed-buffer", "consumed-bufio", "zero-reads", "plain", "multi", "limited", "pipe"}

func TestC19(t *testing.T) {
	c := begin(t, "C19")
	defer c.end()
	c.rec.F.Rule = "rapid: (template x report level x language x reader kind x vector). Templates come from a grammar: literal text (ASCII, unicode, lone braces, newlines), field references of all three report levels and through the embedded reports, pipelines (printf, len, html, js, urlquery, print, index, slice, eq/ne/lt.., and/or/not), if/else/with/range, variables, comments, trim markers, define/template/block without recursion, and invalid forms (unknown field or function, field of a higher level, unbalanced or stray actions, bad pipelines, wrong arity). Readers: ExportWithString, bytes.Reader, one-byte, half, data-with-EOF, failing after k bytes with one of eight error values real readers report (io.ErrUnexpectedEOF, closed pipe, deadline, a wrapped io.EOF …; returned on the next call or together with the last bytes), nil interface, and partially consumed strings.Reader / bytes.Reader / SectionReader / bytes.Buffer / bufio.Reader (content = what remains); nil reports of each level. Oracle A: parse and execute the same text with text/template on the same report value (failure => error matching invalid-template and nil reader; success => identical bytes); oracle B: reflection model for literal + plain-field templates. Thorough adds native fuzzing of the template bytes. Non-trivial = template containing at least one action; distinct by hash of the case."
	c.rec.F.Assumptions = []string{"text/template of the toolchain is the reference for rendering (the property says so)", "the oracle uses the same root template name as the library so that self-referential definitions behave identically; templates with call cycles or > 1 MiB output are skipped and counted", "typed-nil readers are outside the property (nil reader = nil interface value)"}
	tags := []string{"en", "ja", "fr", "und"}
	c.rapidStage("rapid", pick(80000, 1000000), func(rt *rapid.T) {
		lv := gen.Level().Draw(rt, "level")
		v := gen.ValidV3(lv).Draw(rt, "vector")
		text := gen.Template(rt, lv)
		kind := rapid.SampledFrom(readerKinds).Draw(rt, "reader")
		if kind == "fail" {
			names := []string{"injected", "unexpected-eof", "closed-pipe", "no-progress", "short-buffer", "deadline", "closed", "wrapped-eof"}
			kind = fmt.Sprintf("fail:%d:%s", rapid.IntRange(0, len(text)).Draw(rt, "failat"), rapid.SampledFrom(names).Draw(rt, "failerr"))
			if rapid.Bool().Draw(rt, "withdata") {
				kind += ":with-data"
			}
		}
		cs := tplCase{Level: int(lv), Lang: rapid.SampledFrom(tags).Draw(rt, "lang"), Vector: v.String(), Template: []byte(text), Text: strconv.Quote(text), Reader: kind,
			NilReport: rapid.IntRange(0, 19).Draw(rt, "nilreport") == 0}
		cls, nt := tplClass(cs)
		rk := kind
		if strings.HasPrefix(kind, "fail:") {
			rk = "fail"
		}
		cl := []string{cls, "reader:" + rk}
		if cs.NilReport {
			cl = append(cl, "nil-report")
		}
		c.rec.Case("rapid", fmt.Sprintf("%v", cs), nt, cl...)
		if c.rec.SampleCount() < 10 {
			c.rec.Sample(cs)
		}
		evalCase(c, rt, "export", cs, checkC19)
	})
}

// ---- native fuzz target: template bytes --------------------------------------------------------

func caseFromFuzzTpl(sel byte, text string) tplCase {
	vecs := []string{
		"CVSS:3.1/AV:N/AC:L/PR:N/UI:N/S:U/C:H/I:H/A:H",
		"CVSS:3.0/AV:L/AC:H/PR:L/UI:R/S:C/C:L/I:N/A:H/E:P/RL:T/RC:R",
		"CVSS:3.1/AV:A/AC:H/PR:H/UI:N/S:U/C:N/I:L/A:L/E:F/RL:O/RC:U/CR:H/IR:L/AR:M/MAV:P/MAC:L/MPR:N/MUI:R/MS:C/MC:H/MI:N/MA:L",
	}
	lv := int(sel) % 3
	kinds := []string{"string", "reader", "onebyte", "dataerr"}
	return tplCase{Level: lv, Lang: []string{"en", "ja"}[(int(sel)/3)%2], Vector: vecs[lv], Template: []byte(text), Text: strconv.Quote(text), Reader: kinds[(int(sel)/6)%4]}
}

var _ = register("C19/fuzz/FuzzC19", func(c corpusCase) string {
	vals, err := parseCorpus(c.CorpusFile)
	if err != nil || len(vals) != 2 {
		return ""
	}
	sel, ok1 := vals[0].(byte)
	s, ok2 := vals[1].(string)
	if !ok1 || !ok2 {
		return ""
	}
	return checkC19(caseFromFuzzTpl(sel, s))
})

func FuzzC19(f *testing.F) {
	seeds := []string{"", "{{.Vector}}", "- {{ .SeverityName }}: {{ .SeverityValue }} ({{ .BaseScore }})\n", "{{if eq .SeverityValue \"High\"}}!{{else}}.{{end}}",
		"{{range .Vector}}x{{end}}", "{{with .BaseReport}}{{.Vector}}{{end}}", "{{.TemporalReport.SeverityValue}}", "{{printf \"%q\" .AVName | html}}",
		"{{define \"a\"}}[{{.}}]{{end}}{{template \"a\" .Vector}}", "{{", "{{end}}", "{{.Nope}}", "{{foo}}", "{{len}}", "{{- .Version -}}", "{{/* c */}}", "{{$x := .Vector}}{{$x}}",
		"{{index .Vector 0}}", "{{slice .Vector 1 3}}", "{{.EnvironmentalScore}}|{{.MAVValue}}", "{{block \"b\" .}}{{.Version}}{{end}}", "{{template \"Repost\"}}", "}}{{", "{{upper .Vector}}", "{{.Vector | lower}}", "{{join .Vector \",\"}}", "{{default \"x\" .Vector}}", strings.Repeat("x", 5000) + "{{.Version}}"}
	for _, s := range seeds {
		for sel := byte(0); sel < 24; sel += 5 {
			f.Add(sel, s)
		}
	}
	f.Fuzz(func(t *testing.T, sel byte, s string) {
		if len(s) > 4096 {
			return
		}
		cs := caseFromFuzzTpl(sel, s)
		if msg := guard(func() string { return checkC19(cs) }); msg != "" {
			t.Fatalf("VIOLATION-IN-FUZZ %s", msg)
		}
	})
}
