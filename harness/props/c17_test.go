package props

import (
	"fmt"
	"reflect"
	"strconv"
	"strings"
	"testing"

	m3 "github.com/goark/go-cvss/v3/metric"
	"github.com/goark/go-cvss/v3/report"
	"golang.org/x/text/language"
	"pgregory.net/rapid"
	"verif/harness/gen"
	"verif/harness/spec"
)

// C17 — every report field shows its own metric, in the requested language.

// repCase: decode Vector with the decoder of Level, build that level's report in Lang.
type repCase struct {
	Level  int    `json:"report_level"`
	Lang   string `json:"language_tag"`
	NoOpt  bool   `json:"no_language_option"` // build the report without any option (default English)
	Vector string `json:"vector"`
	// PreQuery: the decoder (constructor result) has every observer called, and a report built
	// from it, before its single Decode
	PreQuery bool `json:"queried_before_decode,omitempty"`
	// Earlier: language options passed *before* Lang in the same constructor call (the last
	// option decides). Warmup: tags for which a report of the same object is built first and
	// discarded (regional / script variants of en and ja are unspecified in content, but
	// having rendered them must not change what a later en / ja report shows).
	Earlier []string `json:"earlier_language_options,omitempty"`
	Warmup  []string `json:"reports_built_before,omitempty"`
	// Assign: exported fields of the decoded object assigned (defined values) before the
	// report is built; the report must show the object as it is then
	Assign []fieldSet `json:"fields_assigned_after_decode,omitempty"`
	// FieldBuilt: the object is a constructor result with every field assigned from Vector,
	// never decoded (its encodings then show only what the library encodes for such objects;
	// the report must show the same)
	FieldBuilt bool `json:"field_built,omitempty"`
}

func scoreText(f float64) string { return strconv.FormatFloat(f, 'f', -1, 64) }

// strField reads an exported string field (possibly promoted) by name.
func strField(rep any, path ...string) (string, bool) {
	v := reflect.ValueOf(rep)
	for _, p := range path {
		for v.Kind() == reflect.Ptr {
			if v.IsNil() {
				return "", false
			}
			v = v.Elem()
		}
		v = v.FieldByName(p)
		if !v.IsValid() {
			return "", false
		}
	}
	if v.Kind() != reflect.String {
		return "", false
	}
	return v.String(), true
}

type expectField struct {
	path []string
	want string
	what string
}

// expectations builds the wiring table for a report of the given level from the decoded
// object: field path -> expected text.
func expectations(o obj3, level spec.Level, tag language.Tag) []expectField {
	var ex []expectField
	add := func(want, what string, path ...string) { ex = append(ex, expectField{path, want, what}) }
	fields := map[string]int64{}
	switch level {
	case spec.Base:
		exportedInts(o.B, fields)
	case spec.Temporal:
		exportedInts(o.T, fields)
	default:
		exportedInts(o.E, fields)
	}
	metricFields := func(level spec.Level, prefix ...string) {
		for _, m := range spec.OfLevel(spec.V3Metrics, level) {
			a := nameAPIOf(m.Name)
			add(a.title(tag), "localised title of "+m.Name, append(append([]string(nil), prefix...), m.Name+"Name")...)
			add(a.valueOf(fields[m.Name], tag), "localised value name of "+m.Name, append(append([]string(nil), prefix...), m.Name+"Value")...)
		}
	}
	sev := nameAPIOf("Severity")
	baseEnc, _ := o.B.Encode()
	// ---- base report (reachable as the report itself or through the embedded chain)
	basePrefix := map[spec.Level][]string{spec.Base: nil, spec.Temporal: {"BaseReport"}, spec.Environmental: {"TemporalReport", "BaseReport"}}[level]
	p := func(prefix []string, name string) []string { return append(append([]string(nil), prefix...), name) }
	add(o.B.Ver.String(), "version label", p(basePrefix, "Version")...)
	add(baseEnc, "canonical base encoding", p(basePrefix, "Vector")...)
	add(nameAPIOf("Base").title(tag), "Base Metrics title", p(basePrefix, "BaseMetrics")...)
	add(nameAPIOf("Base").header(tag), "metric value column header", p(basePrefix, "BaseMetricValue")...)
	metricFields(spec.Base, basePrefix...)
	add(scoreText(o.B.Score()), "base score", p(basePrefix, "BaseScore")...)
	add(sev.title(tag), "severity title", p(basePrefix, "SeverityName")...)
	add(sev.valueOf(int64(o.B.Severity()), tag), "base severity", p(basePrefix, "SeverityValue")...)
	if level >= spec.Temporal {
		tempPrefix := map[spec.Level][]string{spec.Temporal: nil, spec.Environmental: {"TemporalReport"}}[level]
		tEnc, _ := o.T.Encode()
		add(tEnc, "canonical temporal encoding", p(tempPrefix, "Vector")...)
		add(nameAPIOf("Temporal").title(tag), "Temporal Metrics title", p(tempPrefix, "TemporalMetrics")...)
		add(nameAPIOf("Temporal").header(tag), "metric value column header", p(tempPrefix, "TemporalMetricValue")...)
		metricFields(spec.Temporal, tempPrefix...)
		add(scoreText(o.T.Score()), "temporal score", p(tempPrefix, "TemporalScore")...)
		add(sev.title(tag), "severity title", p(tempPrefix, "SeverityName")...)
		add(sev.valueOf(int64(o.T.Severity()), tag), "temporal severity", p(tempPrefix, "SeverityValue")...)
		// promoted fields of the lower report stay reachable without a prefix
		add(o.B.Ver.String(), "version label (promoted)", p(tempPrefix, "Version")...)
		add(scoreText(o.B.Score()), "base score (promoted)", p(tempPrefix, "BaseScore")...)
	}
	if level >= spec.Environmental {
		eEnc, _ := o.E.Encode()
		add(eEnc, "canonical environmental encoding", "Vector")
		add(nameAPIOf("Environmental").title(tag), "Environmental Metrics title", "EnvironmentalMetrics")
		add(nameAPIOf("Environmental").header(tag), "metric value column header", "EnvironmentalMetricValue")
		metricFields(spec.Environmental)
		add(scoreText(o.E.Score()), "environmental score", "EnvironmentalScore")
		add(sev.title(tag), "severity title", "SeverityName")
		add(sev.valueOf(int64(o.E.Severity()), tag), "environmental severity", "SeverityValue")
		add(scoreText(o.T.Score()), "temporal score (promoted)", "TemporalScore")
		add(scoreText(o.B.Score()), "base score (promoted)", "BaseScore")
	}
	return ex
}

func buildReport(o obj3, level spec.Level, opts ...report.ReportOptionsFunc) any {
	switch level {
	case spec.Base:
		return report.NewBase(o.B, opts...)
	case spec.Temporal:
		return report.NewTemporal(o.T, opts...)
	}
	return report.NewEnvironmental(o.E, opts...)
}

var checkC17 = register("C17/report", func(c repCase) string {
	level := spec.Level(c.Level)
	if c.Level < 0 || c.Level > 2 {
		return ""
	}
	if _, ok := spec.AcceptV3(c.Vector, level); !ok {
		return ""
	}
	tag := language.Make(c.Lang)
	if c.NoOpt {
		tag = language.English
	}
	base := rawBase(tag)
	if (base == "en" && tag != language.English) || (base == "ja" && tag != language.Japanese) {
		return ""
	}
	var o obj3
	var err error
	if c.PreQuery {
		o, err = decode3Pre(level, c.Vector)
	} else {
		o, err = decode3(level, c.Vector, false)
	}
	if err != nil || o.isNil() {
		return fmt.Sprintf("well-formed vector rejected: %v", err)
	}
	if c.FieldBuilt {
		fb, ok := makeSubjectFieldBuilt(opsCase{Ver: 3, Level: c.Level, Input: c.Vector})
		if !ok {
			return ""
		}
		o = fb.o3
	}
	for _, as := range c.Assign {
		if m := metricOf(3, as.Field); m != nil && m.Level <= level && as.Index >= 0 && as.Index < len(m.Codes) {
			subject{ver: 3, o3: o}.setField(as.Field, constOf(3, as.Field, as.Index))
		}
	}
	o = o.refreshed() // lower-level pointers taken again after the assignments
	for _, w := range c.Warmup {
		buildReport(o, level, report.WithOptionsLanguage(language.Make(w)))
	}
	var rep any
	if c.NoOpt {
		rep = buildReport(o, level)
	} else {
		var opts []report.ReportOptionsFunc
		for _, e := range c.Earlier {
			opts = append(opts, report.WithOptionsLanguage(language.Make(e)))
		}
		rep = buildReport(o, level, append(opts, report.WithOptionsLanguage(tag))...)
	}
	// a report must own its content: building further reports (other vector, same level and
	// language) before the fields are read must not change it
	for _, dv := range []string{"CVSS:3.0/AV:P/AC:H/PR:H/UI:R/S:C/C:L/I:N/A:L/E:U/RL:O/RC:U/CR:L/IR:H/AR:M/MAV:L/MAC:H/MPR:L/MUI:N/MS:U/MC:L/MI:H/MA:N", "CVSS:3.1/AV:L/AC:L/PR:L/UI:N/S:U/C:N/I:N/A:H/E:P/RL:W/RC:R/MAV:A/MS:C"} {
		if ref, ok := spec.AcceptV3(dv, spec.Environmental); ok {
			if d, err := decode3(level, spec.ProjectV3(ref, level).String(), false); err == nil {
				if c.NoOpt {
					buildReport(d, level)
				} else {
					buildReport(d, level, report.WithOptionsLanguage(tag))
				}
			}
		}
	}
	nameTag := tag
	if tag != language.English && tag != language.Japanese {
		nameTag = language.English // any other language: exactly the English report
	}
	for _, e := range expectations(o, level, nameTag) {
		got, ok := strField(rep, e.path...)
		if !ok {
			return fmt.Sprintf("report has no string field %s", strings.Join(e.path, "."))
		}
		if got != e.want {
			return fmt.Sprintf("%v report (%s) of %q: field %s = %q, want the %s = %q", level, c.Lang, c.Vector, strings.Join(e.path, "."), got, e.what, e.want)
		}
	}
	return ""
})

// variantTags: regional / script / extension variants of English and Japanese. What a report
// in one of them shows is left unspecified (C18), but rendering one must not influence
// later reports in exact en / ja.
var variantTags = []string{"ja-JP", "ja-US", "ja-Jpan", "ja-Latn", "ja-u-ca-japanese", "ja-x-private", "en-US", "en-GB", "en-Latn", "en-x-foo", "en-u-nu-latn"}

// titlesDistinct is the precondition that makes a mis-wired title observable.
func titlesDistinct() string {
	for _, tag := range []language.Tag{language.English, language.Japanese} {
		seen := map[string]string{}
		for _, a := range nameAPIs {
			t := a.title(tag)
			if other, dup := seen[t]; dup {
				return fmt.Sprintf("titles of %s and %s coincide in %v (%q)", a.metric, other, tag, t)
			}
			seen[t] = a.metric
		}
	}
	return ""
}

// distinctNeighbours draws a full environmental vector in which neighbouring metrics of
// one type hold different values, so that a field wired to its neighbour is visible.
func distinctNeighbours(rt *rapid.T) spec.Vec {
	v := gen.FullV3(spec.Environmental, 90).Draw(rt, "vector")
	set := func(name, val string) {
		for i := range v.Toks {
			if v.Toks[i].Name == name {
				v.Toks[i].Value = val
			}
		}
	}
	perm := rapid.Permutation([]string{"H", "L", "N"}).Draw(rt, "cia")
	set("C", perm[0])
	set("I", perm[1])
	set("A", perm[2])
	permM := rapid.Permutation([]string{"H", "L", "N", "X"}).Draw(rt, "mcia")
	set("MC", permM[0])
	set("MI", permM[1])
	set("MA", permM[2])
	permR := rapid.Permutation([]string{"H", "M", "L", "X"}).Draw(rt, "req")
	set("CR", permR[0])
	set("IR", permR[1])
	set("AR", permR[2])
	return v
}

func TestC17(t *testing.T) {
	c := begin(t, "C17")
	defer c.end()
	c.rec.F.Rule = "sweep (complete): every v3 metric x every value, one at a time on a fixed vector, at every report level covering the metric x {en, ja, fr, und, no option}; order sweep: every regional / script variant tag of en and ja rendered first and then exact ja / en / fr, and lists of several language options (the last one decides), at every level; rapid: (vector x report level x language) with vectors biased so that C/I/A, MC/MI/MA and CR/IR/AR hold pairwise different values, languages from exact en / ja / 60 other tags / no option. Oracle: hand-written wiring — field <X>Name == localised title of X, <X>Value == localised name of the object's field X (read by reflection), Version == version label, each level's Vector == that level's Encode(), score fields == decimal rendering of that level's Score(), Severity fields == that level's severity, embedded lower reports keep theirs (checked through the embedded paths); other languages == English. Non-trivial = vector in which C/I/A (and the Modified and Requirement triples where present) are pairwise different and at least two levels have different severities; distinct by hash of the case."
	c.rec.F.Assumptions = []string{"names package taken as the dictionary (C18 checks it); precondition checked every run: all 26 titles pairwise distinct per language"}
	if msg := titlesDistinct(); msg != "" {
		c.violation("harness-precondition", map[string]string{"msg": msg}, "precondition for C17 does not hold: "+msg)
		return
	}
	// cold start: in every other process the very first reports are built in the regional /
	// script variants of en and ja (their content is unspecified, but a process that rendered
	// them first must render exact en / ja reports as any other process does)
	if shard%2 == 1 {
		if o, err := decode3(spec.Environmental, representatives(3)[4].String(), false); err == nil {
			for _, w := range variantTags {
				report.NewEnvironmental(o.E, report.WithOptionsLanguage(language.Make(w)))
				report.NewBase(o.B, report.WithOptionsLanguage(language.Make(w)))
			}
		}
		c.rec.SetExtra("cold_start_variant_tags_first", true)
	}
	nviol := 0
	i := 0
	langs := []string{"en", "ja", "fr", "und", ""}
	base := representatives(3)[4] // a full environmental vector
	for _, m := range spec.V3Metrics {
		for _, code := range m.Codes {
			v := spec.Vec{Ver: base.Ver}
			for _, tk := range base.Toks {
				if tk.Name == m.Name {
					tk.Value = code
				}
				v.Toks = append(v.Toks, tk)
			}
			for lv := m.Level; lv <= spec.Environmental; lv++ {
				pv := spec.ProjectV3(v, lv)
				for _, lg := range langs {
					i++
					if nviol > 0 || !mine(i) {
						continue
					}
					cs := repCase{Level: int(lv), Lang: lg, NoOpt: lg == "", PreQuery: i%4 == 2, Vector: pv.String()}
					c.rec.Case("sweep", fmt.Sprintf("%v", cs), true, "sweep:lang="+lg)
					if c.rec.SampleCount() < 3 && i%211 == 0 {
						c.rec.Sample(cs)
					}
					evalEnum(c, "report", cs, checkC17, &nviol)
				}
			}
		}
	}
	// ---- order effects: each variant tag rendered first, then exact ja / en; option lists
	{
		vec := representatives(3)[4]
		for lv := spec.Base; lv <= spec.Environmental; lv++ {
			pv := spec.ProjectV3(vec, lv).String()
			for _, w := range variantTags {
				for _, lg := range []string{"ja", "en", "fr"} {
					i++
					if nviol > 0 || !mine(i) {
						continue
					}
					cs := repCase{Level: int(lv), Lang: lg, Vector: pv, Warmup: []string{w}}
					c.rec.Case("order-sweep", fmt.Sprintf("%v", cs), true, "sweep:variant-tag-first")
					evalEnum(c, "report", cs, checkC17, &nviol)
				}
			}
			for _, earlier := range [][]string{{"ja"}, {"en"}, {"ja", "en"}, {"en", "ja"}, {"ja", "und"}, {"und"}, {"fr", "ja"}} {
				for _, lg := range []string{"ja", "en", "und", "fr"} {
					i++
					if nviol > 0 || !mine(i) {
						continue
					}
					cs := repCase{Level: int(lv), Lang: lg, Vector: pv, Earlier: earlier}
					c.rec.Case("order-sweep", fmt.Sprintf("%v", cs), true, "sweep:several-language-options")
					evalEnum(c, "report", cs, checkC17, &nviol)
				}
			}
		}
	}
	tags := fixedTags()
	c.rapidStage("rapid", pick(80000, 1000000), func(rt *rapid.T) {
		lv := gen.Level().Draw(rt, "level")
		var v spec.Vec
		biased := rapid.IntRange(0, 3).Draw(rt, "biased") != 0
		if biased {
			v = spec.ProjectV3(distinctNeighbours(rt), lv)
			if rapid.Bool().Draw(rt, "shuffle") {
				v.Toks = rapid.Permutation(v.Toks).Draw(rt, "order")
			}
		} else {
			v = gen.ValidV3(lv).Draw(rt, "vector")
		}
		lg := rapid.SampledFrom(tags).Draw(rt, "lang")
		switch rapid.IntRange(0, 5).Draw(rt, "langkind") {
		case 0:
			lg = "en"
		case 1, 2:
			lg = "ja"
		case 3:
			lg = ""
		}
		cs := repCase{Level: int(lv), Lang: lg, NoOpt: lg == "", Vector: v.String()}
		cs.PreQuery = rapid.IntRange(0, 3).Draw(rt, "prequery") == 0
		if lg != "" && rapid.IntRange(0, 3).Draw(rt, "multiopt") == 0 { // several language options: the last one decides
			cs.Earlier = rapid.SliceOfN(rapid.SampledFrom([]string{"ja", "en", "und", "fr", "ja-JP"}), 1, 2).Draw(rt, "earlier")
		}
		if rapid.IntRange(0, 3).Draw(rt, "warmup") == 0 { // reports in unspecified variant tags built first
			cs.Warmup = rapid.SliceOfN(rapid.SampledFrom(variantTags), 1, 2).Draw(rt, "warm")
		}
		if lv > spec.Base && rapid.IntRange(0, 3).Draw(rt, "assign") == 0 { // optional metrics assigned after the decode
			var opt []*spec.Metric
			for _, m := range spec.UpTo(spec.V3Metrics, lv) {
				if m.Level > spec.Base {
					opt = append(opt, m)
				}
			}
			for n := rapid.IntRange(1, 3).Draw(rt, "nassign"); n > 0; n-- {
				m := rapid.SampledFrom(opt).Draw(rt, "afield")
				cs.Assign = append(cs.Assign, fieldSet{Field: m.Name, Index: rapid.IntRange(1, len(m.Codes)-1).Draw(rt, "aidx")})
			}
		}
		cs.FieldBuilt = rapid.IntRange(0, 7).Draw(rt, "fieldbuilt") == 0
		// non-triviality: distinct triples and >= 2 distinct severities across levels
		nt := false
		if ref, ok := spec.AcceptV3(cs.Vector, lv); ok {
			x := spec.IdxV3(ref)
			distinctCIA := x.B[5] != x.B[6] && x.B[6] != x.B[7] && x.B[5] != x.B[7]
			s1 := spec.V3SeverityOf10(spec.V3Base10(x.Ver, x.B))
			s2 := spec.V3SeverityOf10(spec.V3Temporal10(x.Ver, x.B, x.T))
			s3 := spec.V3SeverityOf10(spec.V3Env10(x))
			nt = distinctCIA && (lv == spec.Base || s1 != s2 || s2 != s3)
		}
		cl := []string{"level=" + lv.String(), "lang=" + map[bool]string{true: "other", false: lg}[lg != "en" && lg != "ja" && lg != ""]}
		c.rec.Case("rapid", fmt.Sprintf("%v", cs), nt, cl...)
		if c.rec.SampleCount() < 8 {
			c.rec.Sample(cs)
		}
		evalCase(c, rt, "report", cs, checkC17)
	})
}

var _ = m3.SeverityNone
