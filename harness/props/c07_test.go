package props

import (
	"fmt"
	"testing"

	"pgregory.net/rapid"
	"verif/harness/gen"
	"verif/harness/spec"
)

// C07 / C08 — the decoders accept exactly the well-formed vectors of their level.

func acceptVerdict(c strCase) string {
	if !c.valid() {
		return ""
	}
	isNil, err := decodeAny(c)
	if (err == nil) == isNil {
		return fmt.Sprintf("decoder returned object-nil=%v together with error %v for %s", isNil, err, quoteShort(c.Input))
	}
	want := refAccept(c)
	if got := err == nil; got != want {
		if want {
			return fmt.Sprintf("well-formed vector %s rejected by the %v decoder: %v", quoteShort(c.Input), spec.Level(c.Level), err)
		}
		return fmt.Sprintf("%s accepted by the %v decoder although it is not a well-formed vector of that level (defects: %v)", quoteShort(c.Input), spec.Level(c.Level), refDefects(c))
	}
	return ""
}

var checkC07 = register("C07/string", func(c strCase) string {
	if c.Ver != 3 {
		return ""
	}
	return acceptVerdict(c)
})

var checkC08 = register("C08/string", func(c strCase) string {
	if c.Ver != 2 {
		return ""
	}
	return acceptVerdict(c)
})

func acceptanceTest(t *testing.T, id string, ver int, check func(strCase) string) {
	c := begin(t, id)
	defer c.end()
	c.rec.F.Rule = "neighbourhood: every single-token replacement / insertion / deletion over a vocabulary of ~680 tokens (all names, wrong-case and unknown names, empty name x all codes, X, lower case, junk, empty value, malformed forms) at every position of 6 representative vectors, at each of the three decoders; shapes: token floods (unknown / higher-level / repeated / empty / malformed tokens x 25 counts around powers of two up to 1025, thorough up to 65537, appended / prepended / in place), single tokens of boundary lengths, every character replaced by its full-width or look-alike form, invisible characters at every position, dense multi-byte text, for 2 representative vectors at every decoder; every move of a contiguous block of two or more tokens (whole groups, halves of groups) for all 6 representatives at every decoder; rapid: valid vectors of every level at every decoder, 0-3 classified token/character edits of valid vectors, single-defect vectors, arbitrary strings (unicode, raw bytes, vector alphabet, token soup); thorough adds every pair of token edits over a reduced 50-70 token vocabulary on 2 representative vectors (not counted as distinct: pairs can coincide) and coverage-guided native fuzzing with the same oracle. Non-trivial = a rejected input within three edits of a valid vector, or an accepted input that is not in canonical form (v3) / carries an optional group (v2); distinct by hash of (decoder, receiver kind, input)."
	c.rec.F.Assumptions = []string{"reference recogniser written from the property statement (v3: hand-written token parser; v2: three anchored regular expressions), sharing no code with the decoders"}

	// ---- bounded-exhaustive neighbourhood ---------------------------------------------------
	vocab := gen.TokenVocabulary(ver)
	nviol := 0
	i := 0
	for _, v := range representatives(ver) {
		gen.Neighbourhood(v, vocab, func(s, edit string) {
			i++
			if nviol > 0 || !mine(i) {
				return
			}
			for lv := spec.Base; lv <= spec.Environmental; lv++ {
				cs := newStrCase(ver, lv, i%2 == 0, s)
				acc := refAccept(cs)
				cl := "nbhd:rejected"
				if acc {
					cl = "nbhd:accepted"
				}
				c.rec.Case("neighbourhood", cs.key(), !acc || s != canonOf(ver, s, lv), cl, "nbhd:"+edit)
				if c.rec.SampleCount() < 3 && i%7919 == 0 {
					c.rec.Sample(cs)
				}
				evalEnum(c, "string", cs, check, &nviol)
			}
		})
	}
	// ---- hostile shapes: floods at power-of-two boundaries, long tokens, look-alikes, dense text
	forEachShape(ver, func(j int, cs strCase, label string) {
		if nviol > 0 || !mine(j) {
			return
		}
		c.rec.Case("shapes", cs.key(), !refAccept(cs), shapeClass(label))
		evalEnum(c, "string", cs, check, &nviol)
	})
	// ---- thorough: every *pair* of token edits over a reduced vocabulary ---------------------------
	if thorough() {
		small := gen.SmallVocabulary(ver)
		reps := representatives(ver)
		for _, v := range []spec.Vec{reps[0], reps[2]} {
			var evals, nt int64
			j := 0
			lvl := levelOfVec(ver, v)
			gen.Neighbourhood2(v, small, func(s string) {
				j++
				if nviol > 0 || !mine(j) {
					return
				}
				for lv := lvl; lv <= spec.Environmental; lv++ {
					cs := newStrCase(ver, lv, j%2 == 0, s)
					evals++
					if !refAccept(cs) {
						nt++
					}
					evalEnum(c, "string", cs, check, &nviol)
				}
			})
			// pairs may coincide as strings: counted conservatively as evaluations only
			c.rec.Bulk("neighbourhood-pairs", evals, 0, map[string]int64{"nbhd2:rejected": nt, "nbhd2:accepted": evals - nt})
		}
	}
	// ---- rapid -----------------------------------------------------------------------------------
	c.rapidStage("rapid", pick(1000000, 4000000), func(rt *rapid.T) {
		cs, cl := drawStringCase(rt, ver, int(pick(256, 2048)))
		acc := refAccept(cs)
		nt := (!acc && nearValid(cl)) || (acc && string(cs.Input) != canonOf(ver, string(cs.Input), spec.Level(cs.Level)))
		if acc {
			cl = append(cl, "ref:accept", "ref:accept@"+spec.Level(cs.Level).String())
		} else {
			cl = append(cl, "ref:reject", "ref:reject@"+spec.Level(cs.Level).String())
		}
		c.rec.Case("rapid", cs.key(), nt, cl...)
		if c.rec.SampleCount() < 10 {
			c.rec.Sample(cs)
		}
		evalCase(c, rt, "string", cs, check)
	})
}

// canonOf returns the canonical form an accepted input would have at that decoder level
// ("" when not accepted): for v3 the canonical encoding, for v2 the base-only form (so
// that any optional group counts as non-trivial).
func canonOf(ver int, s string, level spec.Level) string {
	if ver == 3 {
		v, ok := spec.AcceptV3(s, level)
		if !ok {
			return ""
		}
		return spec.CanonV3(v, level)
	}
	v, ok := spec.AcceptV2(s, level)
	if !ok {
		return ""
	}
	return spec.ProjectV2(v, spec.Base).String()
}

func TestC07(t *testing.T) { acceptanceTest(t, "C07", 3, checkC07) }
func TestC08(t *testing.T) { acceptanceTest(t, "C08", 2, checkC08) }
