package props

import (
	"fmt"
	"strconv"
	"strings"
	"testing"

	"verif/harness/gen"
	"verif/harness/spec"
)

// Native fuzz targets (thorough tier). Input: a selector byte (decoder level, receiver
// kind) and the string; the semantic oracle of the property runs inside the target.

func caseFromFuzz(ver int, sel byte, s string) strCase {
	return newStrCase(ver, spec.Level(int(sel)%3), (int(sel)/3)%2 == 1, s)
}

func fuzzSeeds(f *testing.F, ver int) {
	add := func(s string) {
		for sel := byte(0); sel < 6; sel++ {
			f.Add(sel, s)
		}
	}
	for _, v := range representatives(ver) {
		add(v.String())
	}
	// a few hostile shapes as starting points: floods at small boundaries, a long token,
	// full-width characters, dense multi-byte text
	n := 0
	gen.Shapes(ver, representatives(ver)[0], spec.Environmental, false, func(s, label string) {
		n++
		if len(s) < 1200 && n%97 == 0 {
			f.Add(byte(n%6), s)
		}
	})
	// hostile constants
	for _, s := range []string{"", "/", ":", "//", "::", "CVSS:", "CVSS:3.1", "CVSS:3.1/", "CVSS:3.1//", "CVSS:3.1/AV:N/AV:N", "CVSS:3.1/AV:", "CVSS:3.1/:N",
		"CVSS:2.0/AV:N/AC:L/Au:N/C:P/I:P/A:C", "AV:N/AC:L/Au:N/C:P/I:P/A:C/", "AV:N/AC:L/Au:N/C:P/I:P/A:C/E:H", "AV:N/AC:L/Au:N/C:P/I:P/A:C/RC:C/RL:U/E:H",
		"\x00", strings.Repeat("/", 64), strings.Repeat("AV:N/", 40), "CVSS:3.1/AV:N/AC:L/PR:N/UI:N/S:U/C:H/I:H/A:H/E:X/RL:X/RC:X/CR:X/IR:X/AR:X/MAV:X/MAC:X/MPR:X/MUI:X/MS:X/MC:X/MI:X/MA:X",
		"cvss:3.1/av:n/ac:l/pr:n/ui:n/s:u/c:h/i:h/a:h", "\ufeffCVSS:3.1/AV:N/AC:L/PR:N/UI:N/S:U/C:H/I:H/A:H", "CVSS:3.1/AV:N/AC:L/PR:N/UI:N/S:U/C:H/I:H/A:H\r\n",
		"(AV:N/AC:L/Au:N/C:P/I:P/A:C)", "CVSS2#AV:N/AC:L/Au:N/C:P/I:P/A:C", "AV:N/AC:L/Au:N/C:P/I:P/A:C\r", "AV:N /AC:L/Au:N/C:P/I:P/A:C", "AV:N/AC:L/Au:N/C:P/I:P/A:C/E:ND/RL:ND/RC:ND/CDP:ND/TD:ND/CR:ND/IR:ND/AR:ND", " CVSS:3.1/AV:N/AC:L/PR:N/UI:N/S:U/C:H/I:H/A:H ", "CVSS:3.1/AV:N/AC:L/PR:N/UI:N/S:U/C:H/I:H/A:H/CVSS:3.1"} {
		add(s)
	}
}

// corpusCase is the replay form of a native-fuzz crasher: the corpus file content.
type corpusCase struct {
	CorpusFile string `json:"corpus_file"`
}

// parseCorpus decodes a "go test fuzz v1" file into its values (byte and string only).
func parseCorpus(content string) ([]any, error) {
	lines := strings.Split(strings.TrimSpace(content), "\n")
	if len(lines) == 0 || !strings.HasPrefix(lines[0], "go test fuzz v1") {
		return nil, fmt.Errorf("not a go fuzz corpus file")
	}
	var vals []any
	for _, l := range lines[1:] {
		l = strings.TrimSpace(l)
		switch {
		case strings.HasPrefix(l, "byte(") && strings.HasSuffix(l, ")"):
			inner := l[len("byte(") : len(l)-1]
			if strings.HasPrefix(inner, "'") {
				r, _, _, err := strconv.UnquoteChar(inner[1:len(inner)-1], '\'')
				if err != nil {
					return nil, err
				}
				vals = append(vals, byte(r))
			} else {
				n, err := strconv.ParseUint(inner, 0, 8)
				if err != nil {
					return nil, err
				}
				vals = append(vals, byte(n))
			}
		case strings.HasPrefix(l, "string(") && strings.HasSuffix(l, ")"):
			s, err := strconv.Unquote(l[len("string(") : len(l)-1])
			if err != nil {
				return nil, err
			}
			vals = append(vals, s)
		case strings.HasPrefix(l, "[]byte(") && strings.HasSuffix(l, ")"):
			s, err := strconv.Unquote(l[len("[]byte(") : len(l)-1])
			if err != nil {
				return nil, err
			}
			vals = append(vals, []byte(s))
		case l == "":
		default:
			return nil, fmt.Errorf("unsupported corpus line %q", l)
		}
	}
	return vals, nil
}

func fuzzReplayer(ver int, check func(strCase) string) func(corpusCase) string {
	return func(c corpusCase) string {
		vals, err := parseCorpus(c.CorpusFile)
		if err != nil || len(vals) != 2 {
			return ""
		}
		sel, ok1 := vals[0].(byte)
		s, ok2 := vals[1].(string)
		if !ok1 || !ok2 {
			return ""
		}
		return check(caseFromFuzz(ver, sel, s))
	}
}

var (
	_ = register("C07/fuzz/FuzzC07", fuzzReplayer(3, checkC07))
	_ = register("C08/fuzz/FuzzC08", fuzzReplayer(2, checkC08))
	_ = register("C11/fuzz/FuzzC11", func(c corpusCase) string {
		if m := fuzzReplayer(3, checkC11)(c); m != "" {
			return m
		}
		return fuzzReplayer(2, checkC11)(c)
	})
	_ = register("C12/fuzz/FuzzC12", func(c corpusCase) string {
		if m := fuzzReplayer(3, checkC12String)(c); m != "" {
			return m
		}
		return fuzzReplayer(2, checkC12String)(c)
	})
)

func runFuzzCheck(t *testing.T, check func(strCase) string, cs strCase) {
	if msg := guard(func() string { return check(cs) }); msg != "" {
		if _, _, ok := splitKnown(msg); ok {
			return
		}
		t.Fatalf("VIOLATION-IN-FUZZ %s", msg)
	}
}

func FuzzC07(f *testing.F) {
	fuzzSeeds(f, 3)
	f.Fuzz(func(t *testing.T, sel byte, s string) { runFuzzCheck(t, checkC07, caseFromFuzz(3, sel, s)) })
}

func FuzzC08(f *testing.F) {
	fuzzSeeds(f, 2)
	f.Fuzz(func(t *testing.T, sel byte, s string) { runFuzzCheck(t, checkC08, caseFromFuzz(2, sel, s)) })
}

func FuzzC11(f *testing.F) {
	fuzzSeeds(f, 3)
	fuzzSeeds(f, 2)
	f.Fuzz(func(t *testing.T, sel byte, s string) {
		runFuzzCheck(t, checkC11, caseFromFuzz(3, sel, s))
		runFuzzCheck(t, checkC11, caseFromFuzz(2, sel, s))
	})
}

func FuzzC12(f *testing.F) {
	fuzzSeeds(f, 3)
	fuzzSeeds(f, 2)
	f.Fuzz(func(t *testing.T, sel byte, s string) {
		runFuzzCheck(t, checkC12String, caseFromFuzz(3, sel, s))
		runFuzzCheck(t, checkC12String, caseFromFuzz(2, sel, s))
	})
}

var _ = gen.SplitMix64
