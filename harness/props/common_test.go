package props

import (
	"encoding/json"
	"flag"
	"fmt"
	"os"
	"path/filepath"
	"runtime/debug"
	"strconv"
	"strings"
	"testing"

	"pgregory.net/rapid"
	"verif/harness/ev"
)

// ---------------------------------------------------------------------------------
// Environment of one test process (set by the driver).

func envInt(name string, def int64) int64 {
	if s := os.Getenv(name); s != "" {
		if v, err := strconv.ParseInt(s, 10, 64); err == nil {
			return v
		}
	}
	return def
}

func envStr(name, def string) string {
	if s := os.Getenv(name); s != "" {
		return s
	}
	return def
}

var (
	tier      = envStr("VERIF_TIER", "quick")
	seed      = envInt("VERIF_SEED", 1)
	shard     = int(envInt("VERIF_SHARD", 0))
	shards    = int(envInt("VERIF_SHARDS", 1))
	fragPath  = envStr("VERIF_FRAG", "")
	replayDir = envStr("VERIF_REPLAY_DIR", "")
	kfPath    = envStr("VERIF_KF", "/verif/known_findings.json")
)

func thorough() bool { return tier == "thorough" }

// pick returns q in the quick tier and t in the thorough tier.
func pick(q, t int64) int64 {
	if thorough() {
		return t
	}
	return q
}

// splitmix64 is the counter-based generator used wherever a run needs "random" but
// reproducible choices outside rapid (hash-seeded sampling of huge finite domains).
func splitmix64(x uint64) uint64 {
	x += 0x9e3779b97f4a7c15
	x = (x ^ (x >> 30)) * 0xbf58476d1ce4e5b9
	x = (x ^ (x >> 27)) * 0x94d049bb133111eb
	return x ^ (x >> 31)
}

func mix(a, b uint64) uint64 { return splitmix64(splitmix64(a) ^ (b * 0x9e3779b97f4a7c15)) }

// permIndex is a seeded pseudo-random *bijection* of [0, n): a 4-round Feistel network on
// the next even number of bits with cycle walking. Sampling k = 0, 1, 2, … through it gives
// distinct points (no hash set needed) in an order without the arithmetic regularities of an
// affine map — consecutive samples are unrelated, which matters when one object is reused
// for consecutive points.
func permIndex(k, n, key uint64) uint64 {
	bits := uint(2)
	for (uint64(1) << bits) < n {
		bits += 2
	}
	half := bits / 2
	mask := (uint64(1) << half) - 1
	x := k
	for {
		l, r := x>>half, x&mask
		for round := uint64(0); round < 4; round++ {
			l, r = r, l^(splitmix64(r^(key+round*0x9e3779b97f4a7c15))&mask)
		}
		x = l<<half | r
		if x < n {
			return x
		}
	}
}

// rapidSeed derives the non-zero rapid seed of this shard and stage.
func rapidSeed(stage string) uint64 {
	s := mix(mix(uint64(seed), uint64(shard)), ev.Hash(stage))
	if s == 0 {
		s = 0x5eed
	}
	return s
}

// ---------------------------------------------------------------------------------
// Replayable cases

// A checker evaluates one case and returns "" when the property holds on it.
var replayers = map[string]func(json.RawMessage) (string, error){}

// register makes a case kind replayable: key is "<property>/<kind>".
func register[T any](key string, f func(T) string) func(T) string {
	replayers[key] = func(raw json.RawMessage) (string, error) {
		var c T
		if err := json.Unmarshal(raw, &c); err != nil {
			return "", err
		}
		return guard(func() string { return f(c) }), nil
	}
	return f
}

// guard converts a panic of the code under test into a failure message.
func guard(f func() string) (msg string) {
	defer func() {
		if r := recover(); r != nil {
			msg = fmt.Sprintf("panic: %v\n%s", r, firstLines(string(debug.Stack()), 24))
		}
	}()
	return f()
}

func firstLines(s string, n int) string {
	l := strings.Split(s, "\n")
	if len(l) > n {
		l = l[:n]
	}
	return strings.Join(l, "\n")
}

type replayFile struct {
	Property string          `json:"property"`
	Kind     string          `json:"kind"`
	Msg      string          `json:"msg,omitempty"`
	Case     json.RawMessage `json:"case"`
}

// ---------------------------------------------------------------------------------
// Per-test context

type pending struct {
	kind string
	cs   any
	msg  string
}

type ctx struct {
	t    *testing.T
	id   string
	rec  *ev.Recorder
	pend *pending
}

func begin(t *testing.T, id string) *ctx {
	c := &ctx{t: t, id: id, rec: ev.New(id, tier, seed, shard)}
	return c
}

// end writes the evidence fragment. done tells the driver the test ran to its end.
func (c *ctx) end() {
	if fragPath != "" {
		if err := c.rec.Write(fragPath, true); err != nil {
			c.t.Errorf("cannot write fragment: %v", err)
		}
	}
}

// violation stores a replay file for the case and records the violation.
func (c *ctx) violation(kind string, cs any, msg string) {
	raw, err := json.Marshal(cs)
	if err != nil {
		raw = []byte(`null`)
	}
	rf := replayFile{Property: c.id, Kind: kind, Msg: firstLines(msg, 6), Case: raw}
	b, _ := json.MarshalIndent(rf, "", " ")
	path := ""
	if replayDir != "" {
		os.MkdirAll(replayDir, 0o755)
		path = filepath.Join(replayDir, fmt.Sprintf("%s-%016x.json", kind, ev.Hash(string(raw))))
		if err := os.WriteFile(path, b, 0o644); err != nil {
			c.t.Logf("cannot write replay file: %v", err)
		}
	}
	c.rec.Violation(path, firstLines(msg, 6))
	c.t.Errorf("VIOLATION %s kind=%s replay=%s\n%s\ncase: %s", c.id, kind, path, msg, string(raw))
}

// maxEnumViolations bounds how many violations an enumeration stage reports.
const maxEnumViolations = 1

// rapidStage runs a rapid property as a stage. The property reports a failing case via
// c.failCase (which records the case and fails the rapid test); after shrinking the last
// recorded case is the minimal one and becomes the replay file.
func (c *ctx) rapidStage(stage string, checks int64, prop func(rt *rapid.T)) {
	n := checks / int64(shards)
	if n < 1 {
		n = 1
	}
	c.rec.Requested(stage, n)
	flag.Set("rapid.checks", strconv.FormatInt(n, 10))
	flag.Set("rapid.seed", strconv.FormatUint(rapidSeed(stage), 10))
	flag.Set("rapid.nofailfile", "true")
	c.pend = nil
	ok := c.t.Run(stage, func(t *testing.T) {
		rapid.Check(t, prop)
	})
	if !ok {
		if c.pend != nil {
			c.violation(c.pend.kind, c.pend.cs, c.pend.msg)
		} else {
			c.violation("rapid-internal", map[string]string{"stage": stage}, "rapid stage failed without a recorded case (generator problem or flaky failure)")
		}
	}
	c.pend = nil
}

// evalCase runs a registered checker on a case inside a rapid property.
func evalCase[T any](c *ctx, rt *rapid.T, kind string, cs T, check func(T) string) {
	if msg := guard(func() string { return check(cs) }); msg != "" {
		if id, detail, ok := splitKnown(msg); ok {
			c.rec.Known(id, detail)
			return
		}
		c.pend = &pending{kind, cs, msg}
		rt.Fatalf("%s", msg)
	}
}

// evalEnum runs a registered checker on an enumerated case; returns false when the
// stage should stop (too many violations).
func evalEnum[T any](c *ctx, kind string, cs T, check func(T) string, nviol *int) bool {
	if msg := guard(func() string { return check(cs) }); msg != "" {
		if id, detail, ok := splitKnown(msg); ok {
			c.rec.Known(id, detail)
			return true
		}
		c.violation(kind, cs, msg)
		*nviol++
		return *nviol < maxEnumViolations
	}
	return true
}

// mine tells whether enumeration index i belongs to this shard.
func mine(i int) bool { return i%shards == shard }

// ---------------------------------------------------------------------------------
// Replay entry point: VERIF_REPLAY_FILES is a list of files separated by '\n'.

func TestReplay(t *testing.T) {
	files := strings.Split(envStr("VERIF_REPLAY_FILES", ""), "\n")
	id := envStr("VERIF_REPLAY_PROPERTY", "")
	c := begin(t, id)
	defer c.end()
	n := 0
	for _, f := range files {
		if f == "" {
			continue
		}
		b, err := os.ReadFile(f)
		if err != nil {
			t.Errorf("replay %s: %v", f, err)
			continue
		}
		var rf replayFile
		if err := json.Unmarshal(b, &rf); err != nil {
			t.Errorf("replay %s: %v", f, err)
			continue
		}
		r, ok := replayers[rf.Property+"/"+rf.Kind]
		if !ok {
			t.Logf("replay %s: no replayer for %s/%s (skipped)", f, rf.Property, rf.Kind)
			continue
		}
		n++
		msg, err := r(rf.Case)
		if err != nil {
			t.Errorf("replay %s: %v", f, err)
			continue
		}
		c.rec.Bulk("replay", 1, 0, nil)
		if id, detail, ok := splitKnown(msg); ok {
			c.rec.Known(id, detail)
			continue
		}
		if msg != "" {
			c.rec.Violation(f, firstLines(msg, 6))
			t.Errorf("VIOLATION %s replay=%s\n%s", rf.Property, f, msg)
		}
	}
	t.Logf("replayed %d files", n)
}
