package props

import (
	"fmt"
	"testing"

	"pgregory.net/rapid"
	"verif/harness/gen"
	"verif/harness/spec"
)

// C02 — v3 temporal score = Roundup(BaseScore x E x RL x RC) on the rounded base score.

var checkC02 = register("C02/decode", func(c scoreCase3) string {
	level := spec.Level(c.Level)
	if level < spec.Temporal {
		return ""
	}
	ref, ok := spec.AcceptV3(c.Input, level)
	if !ok {
		return ""
	}
	o, err := decodeCase3(level, c)
	if err != nil || o.isNil() {
		return fmt.Sprintf("well-formed vector rejected by the %v decoder: %v", level, err)
	}
	idx := spec.IdxV3(ref)
	want := spec.V3Temporal10(idx.Ver, idx.B, idx.T)
	var got float64
	if level == spec.Temporal {
		got = o.T.Score()
	} else {
		got = o.E.TemporalMetrics().Score()
	}
	k, grid := tenths(got)
	if !grid || k != want {
		return fmt.Sprintf("temporal score %v, exact FIRST value %d.%d (base %d tenths)", fmtScore(got), want/10, want%10, spec.V3Base10(idx.Ver, idx.B))
	}
	if level == spec.Environmental { // again, after the environmental level has been queried
		o.E.Score()
		o.E.Severity()
		if again := o.E.TemporalMetrics().Score(); again != got {
			return fmt.Sprintf("temporal score %v read before, %v read after the environmental score of the same object was queried", fmtScore(got), fmtScore(again))
		}
	}
	return ""
})

func c02Labels(idx spec.V3Idx) (bool, []string) {
	t3 := spec.V3T()
	var cl []string
	lt1 := false
	for i := 0; i < 3; i++ {
		code := t3[i].Codes[idx.T[i]]
		cl = append(cl, t3[i].Name+":"+code)
		if t3[i].Weights[idx.T[i]] != "1" {
			lt1 = true
		}
	}
	zero := idx.B[5] == 2 && idx.B[6] == 2 && idx.B[7] == 2
	return lt1 && !zero, cl
}

func TestC02(t *testing.T) {
	c := begin(t, "C02")
	defer c.end()
	c.rec.F.Rule = "enumeration: all 2 x 2,592 x 5 x 5 x 4 = 518,400 vectors decoded by the temporal decoder in canonical order with only the defined temporal metrics written (thorough: by the temporal and the environmental decoder, canonical plus two hash-seeded presentation variants: shuffled tokens, explicit X, extra environmental metrics); rapid: random vector, decoder in {temporal, environmental}, nil receiver, order, omission, explicit X. Non-trivial = base score > 0 and at least one of E/RL/RC with weight < 1; enumerated points are distinct by construction, rapid cases by hash of (decoder, input). A quarter of the constructor-made decoders have every observer of every view called once before their single Decode (queried_before_decode)."
	c.rec.F.Assumptions = []string{"reference model: C01's exact base tenth, then integer arithmetic ceil(k*e*rl*rc/10^6) with weights in hundredths; both Roundup readings evaluated and compared", "library constants bound by exported name"}

	levels := []spec.Level{spec.Temporal}
	variants := 0
	if thorough() {
		levels = []spec.Level{spec.Temporal, spec.Environmental}
		variants = 2
	}
	nviol := 0
	var evals, nt int64
	classes := map[string]int64{}
	stop := false
	forEachV3Base(func(i int, x spec.V3Idx) {
		if stop || !mine(i) {
			return
		}
		for e := 0; e < 5 && !stop; e++ {
			for rl := 0; rl < 5 && !stop; rl++ {
				for rc := 0; rc < 4 && !stop; rc++ {
					x.T = [3]int{e, rl, rc}
					isNT, cl := c02Labels(x)
					canon := gen.V3FromIdx(x, spec.Temporal, false)
					for _, lv := range levels {
						for v := -1; v < variants; v++ {
							vec := canon
							if v >= 0 {
								vec = gen.DecorateV3(canon, lv, spec.Temporal, mix(uint64(seed), uint64(((i*100+e*20+rl*4+rc)*4+int(lv))*4+v)))
							}
							cs := scoreCase3{Level: int(lv), NilRecv: v == 0, PreQuery: (i+e+rl+rc+v)%4 == 1, Input: vec.String()}
							evals++
							if isNT {
								nt++
							}
							for _, k := range cl {
								classes[k]++
							}
							if c.rec.SampleCount() < 4 && i%977 == 0 && e == 2 && rl == 3 && rc == 1 {
								c.rec.Sample(cs)
							}
							if !evalEnum(c, "decode", cs, checkC02, &nviol) {
								stop = true
							}
						}
					}
				}
			}
		}
	})
	c.rec.Bulk("enum", evals, nt, classes)
	if shard == 0 {
		c.rec.F.Exhaustive = append(c.rec.F.Exhaustive, "version x base x temporal metrics (518,400 vectors)")
	}

	c.rapidStage("rapid", pick(64000, 1000000), func(rt *rapid.T) {
		lv := rapid.SampledFrom([]spec.Level{spec.Temporal, spec.Environmental}).Draw(rt, "decoder")
		vec := gen.ValidV3(lv).Draw(rt, "vector")
		cs := scoreCase3{Level: int(lv), NilRecv: rapid.Bool().Draw(rt, "nilrecv"), PreQuery: rapid.IntRange(0, 3).Draw(rt, "prequery") == 0, Input: vec.String()}
		isNT, _ := c02Labels(spec.IdxV3(vec))
		cl := []string{"rapid:decoder=" + lv.String()}
		if cs.Input != spec.CanonV3(vec, lv) {
			cl = append(cl, "rapid:non-canonical")
		}
		c.rec.Case("rapid", fmt.Sprintf("%d|%s", cs.Level, cs.Input), isNT, cl...)
		if c.rec.SampleCount() < 8 {
			c.rec.Sample(cs)
		}
		evalCase(c, rt, "decode", cs, checkC02)
	})
	c.rec.SetExtra("roundup_readings_disagreements", spec.RoundupDisagreements.Load())
}
