package props

import (
	"encoding/json"
	"fmt"
	"os"
	"sort"
	"strings"
	"sync"
	"testing"

	m2 "github.com/goark/go-cvss/v2/metric"
	"verif/harness/bind"
	"verif/harness/gen"
	"verif/harness/spec"
)

// Known findings (committed file, never written by a check run).

type kfInput struct {
	Library int   `json:"library_tenths"`
	Spec    []int `json:"specification_tenths"`
}

type kfFinding struct {
	ID       string             `json:"id"`
	Property string             `json:"property"`
	Status   string             `json:"status"` // "open"
	Title    string             `json:"title"`
	Where    string             `json:"where"`
	Inputs   map[string]kfInput `json:"inputs"`
}

type kfFile struct {
	Comment  string      `json:"comment"`
	Findings []kfFinding `json:"findings"`
	Fixed    []string    `json:"fixed"`
}

var (
	kfOnce sync.Once
	kfData kfFile
)

func knownFindings() *kfFile {
	kfOnce.Do(func() {
		b, err := os.ReadFile(kfPath)
		if err != nil {
			return
		}
		json.Unmarshal(b, &kfData)
	})
	return &kfData
}

// kfLookup returns the listed library tenth for an input of an open finding.
func kfLookup(id, key string) (int, bool) {
	for _, f := range knownFindings().Findings {
		if f.ID == id && f.Status == "open" {
			if in, ok := f.Inputs[key]; ok {
				return in.Library, true
			}
		}
	}
	return 0, false
}

func known(id, detail string) string { return "KNOWN:" + id + ":" + detail }

// splitKnown recognises the marker returned by checkers for listed known findings.
func splitKnown(msg string) (id, detail string, ok bool) {
	if !strings.HasPrefix(msg, "KNOWN:") {
		return "", "", false
	}
	rest := msg[len("KNOWN:"):]
	i := strings.IndexByte(rest, ':')
	if i < 0 {
		return rest, "", true
	}
	return rest[:i], rest[i+1:], true
}

func v2BaseKey(b [6]int) string { return gen.V2FromIdx(b, false, [3]int{}, false, [5]int{}).String() }

func v2ReqKey(b [6]int, cr, ir, ar int) string {
	e := spec.V2E()
	return fmt.Sprintf("%s|CR:%s/IR:%s/AR:%s", v2BaseKey(b), e[2].Codes[cr], e[3].Codes[ir], e[4].Codes[ar])
}

// TestGenKF regenerates the known-findings file from the library's current behaviour.
// It is a maintenance tool (run by hand with VERIF_GEN_KF=<path>), never part of a check.
func TestGenKF(t *testing.T) {
	out := os.Getenv("VERIF_GEN_KF")
	if out == "" {
		t.Skip("maintenance tool")
	}
	kf1 := kfFinding{ID: "KF-1", Property: "C04", Status: "open",
		Title:  "CVSS v2 base score: Impact and Exploitability are rounded to two decimals before the base equation, so the base score (and every temporal score derived from it) is 0.1 off the FIRST equation for these base vectors",
		Where:  "v2/metric/base.go Score()/score(): roundTo2Decimal(10.41*...), roundTo2Decimal(20*AV*AC*Au)",
		Inputs: map[string]kfInput{}}
	kf2 := kfFinding{ID: "KF-2", Property: "C05", Status: "open",
		Title:  "CVSS v2 environmental score: AdjustedImpact (and Exploitability) are rounded to two decimals before the adjusted base equation, so the adjusted base score is 0.1 off the FIRST equation for these (base vector | CR/IR/AR) combinations; the deviation propagates through the temporal and environmental equations",
		Where:  "v2/metric/environmental.go Score(): roundTo2Decimal(10.41*...), v2/metric/base.go score()",
		Inputs: map[string]kfInput{}}
	for bi := 0; bi < 729; bi++ {
		b := spec.V2BaseFromIndex(bi)
		o := m2.NewBase()
		vec := v2BaseKey(b)
		o, err := o.Decode(vec)
		if err != nil {
			t.Fatal(err)
		}
		k, grid := tenths(o.Score())
		if !grid {
			t.Fatalf("%s off grid", vec)
		}
		if s := spec.V2Base(b); !s.Has(k) {
			kf1.Inputs[vec] = kfInput{k, s.Elems()}
		}
		for cr := 0; cr < 4; cr++ {
			for ir := 0; ir < 4; ir++ {
				for ar := 0; ar < 4; ar++ {
					e, err := m2.NewEnvironmental().Decode(vec + "/CDP:ND/TD:ND/CR:L/IR:L/AR:L")
					if err != nil {
						t.Fatal(err)
					}
					bind.SetV2Env(e, [5]int{5, 4, cr, ir, ar})
					k, grid := tenths(e.Score())
					if !grid {
						t.Fatalf("%s off grid", vec)
					}
					adj, _, _ := spec.V2AdjustedBase(b, cr, ir, ar)
					if !adj.Has(k) {
						kf2.Inputs[v2ReqKey(b, cr, ir, ar)] = kfInput{k, adj.Elems()}
					}
				}
			}
		}
	}
	f := kfFile{
		Comment:  "Known findings: genuine defects of goark/go-cvss with respect to /verif/properties.jsonl that are recorded rather than repaired (DESIGN.md section 7). Each entry lists the exact inputs that fail; a check excuses a deviation only on a listed input and only when the library's value is the exact propagation of the listed wrong tenth. Never written at run time.",
		Findings: []kfFinding{kf1, kf2},
		Fixed:    []string{},
	}
	b, _ := json.MarshalIndent(f, "", " ")
	if err := os.WriteFile(out, append(b, '\n'), 0o644); err != nil {
		t.Fatal(err)
	}
	keys := make([]string, 0, len(kf1.Inputs))
	for k := range kf1.Inputs {
		keys = append(keys, k)
	}
	sort.Strings(keys)
	t.Logf("KF-1: %d base vectors, KF-2: %d combinations; e.g. %v", len(kf1.Inputs), len(kf2.Inputs), keys[:3])
}
