package props

import (
	"fmt"
	"testing"

	"pgregory.net/rapid"
	"verif/harness/gen"
	"verif/harness/spec"
)

// C01 — v3 base score = FIRST base equations, whichever decoder / token order.

// scoreCase3 is a v3 string case: decode Input with the decoder of Level.
type scoreCase3 struct {
	Level   int    `json:"decoder_level"` // 0 base, 1 temporal, 2 environmental
	NilRecv bool   `json:"nil_receiver"`
	Input   string `json:"input"`
	// PreQuery: the decoder comes from the constructor and every observer of it is called once
	// before its single Decode; the decoded vector's scores must not depend on that.
	PreQuery bool `json:"queried_before_decode,omitempty"`
}

// decodeCase3 decodes the case's input the way the case says.
func decodeCase3(level spec.Level, c scoreCase3) (obj3, error) {
	if c.PreQuery && !c.NilRecv {
		return decode3Pre(level, c.Input)
	}
	return decode3(level, c.Input, c.NilRecv)
}

var checkC01 = register("C01/decode", func(c scoreCase3) string {
	level := spec.Level(c.Level)
	ref, ok := spec.AcceptV3(c.Input, level)
	if !ok {
		return "" // not a well-formed vector of this level: outside C01's quantifier
	}
	o, err := decodeCase3(level, c)
	if err != nil || o.isNil() {
		return fmt.Sprintf("well-formed vector rejected by the %v decoder: %v", level, err)
	}
	idx := spec.IdxV3(ref)
	want := spec.V3Base10(idx.Ver, idx.B)
	var got float64
	if level == spec.Base {
		got = o.B.Score()
	} else {
		var bm interface{ Score() float64 }
		if level == spec.Temporal {
			bm = o.T.BaseMetrics()
		} else {
			bm = o.E.BaseMetrics()
		}
		got = bm.Score()
	}
	k, grid := tenths(got)
	if !grid || k != want {
		return fmt.Sprintf("base score %v, exact FIRST value %d.%d", fmtScore(got), want/10, want%10)
	}
	// the same observation after the higher levels of the object have been queried
	if level != spec.Base {
		var again float64
		if level == spec.Temporal {
			o.T.Score()
			o.T.Severity()
			again = o.T.BaseMetrics().Score()
		} else {
			o.E.Score()
			o.E.Severity()
			o.E.TemporalMetrics().Score()
			again = o.E.BaseMetrics().Score()
		}
		if again != got {
			return fmt.Sprintf("base score %v read before, %v read after the higher-level scores of the same object were queried (exact FIRST value %d.%d)", fmtScore(got), fmtScore(again), want/10, want%10)
		}
	}
	allNone := idx.B[5] == 2 && idx.B[6] == 2 && idx.B[7] == 2 // C, I, A codes H,L,N
	if (k == 0) != allNone {
		return fmt.Sprintf("base score %v but C/I/A all None = %v", fmtScore(got), allNone)
	}
	return ""
})

func c01Labels(idx spec.V3Idx) (nontrivial bool, classes []string) {
	nontrivial = !(idx.B[5] == 2 && idx.B[6] == 2 && idx.B[7] == 2)
	if idx.B[4] == 1 {
		classes = append(classes, "scope-changed")
		if idx.B[2] != 0 {
			classes = append(classes, "scope-changed+PR!=N")
		}
	} else {
		classes = append(classes, "scope-unchanged")
	}
	if !nontrivial {
		classes = append(classes, "zero-impact")
	}
	return
}

// forEachV3Base enumerates version x base metrics; i is the running index.
func forEachV3Base(f func(i int, x spec.V3Idx)) {
	i := 0
	var x spec.V3Idx
	dims := [8]int{4, 2, 3, 2, 2, 3, 3, 3}
	for x.Ver = 0; x.Ver < 2; x.Ver++ {
		var rec func(d int)
		rec = func(d int) {
			if d == 8 {
				f(i, x)
				i++
				return
			}
			for k := 0; k < dims[d]; k++ {
				x.B[d] = k
				rec(d + 1)
			}
		}
		rec(0)
	}
}

func TestC01(t *testing.T) {
	c := begin(t, "C01")
	defer c.end()
	c.rec.F.Rule = "enumeration: every (version, AV, AC, PR, UI, S, C, I, A) combination decoded by the base, temporal and environmental decoder (canonical order; thorough: plus 64 hash-seeded permutations / optional-metric decorations each); rapid: random combination, decoder, nil receiver, token permutation, optional metrics. Non-trivial = (version, base tuple, decoder, presentation) with non-zero impact; distinct by construction in the enumeration, by hash of (decoder, input) in rapid. A quarter of the constructor-made decoders have every observer of every view called once before their single Decode (queried_before_decode)."
	c.rec.F.Assumptions = []string{"reference model: FIRST v3.0/v3.1 base equations in exact rational arithmetic (harness/spec), Roundup in the reading of the vector's own version", "library constants are bound to specification codes by exported constant name"}

	variants := int(pick(0, 64))
	nviol := 0
	var ev, nt int64
	classes := map[string]int64{}
	stop := false
	forEachV3Base(func(i int, x spec.V3Idx) {
		if stop || !mine(i) {
			return
		}
		isNT, cl := c01Labels(x)
		for lv := spec.Base; lv <= spec.Environmental; lv++ {
			canon := gen.V3FromIdx(x, spec.Base, false)
			for v := -1; v < variants; v++ {
				vec := canon
				if v >= 0 {
					vec = gen.DecorateV3(canon, lv, spec.Base, mix(uint64(seed), uint64(i*1000+int(lv)*100+v)))
				}
				cs := scoreCase3{Level: int(lv), NilRecv: v%2 == 0, PreQuery: (i+v)%4 == 1, Input: vec.String()}
				ev++
				if isNT {
					nt++
				}
				for _, k := range cl {
					classes[k]++
				}
				if c.rec.SampleCount() < 4 && (i%1237 == 0) {
					c.rec.Sample(cs)
				}
				if !evalEnum(c, "decode", cs, checkC01, &nviol) {
					stop = true
					return
				}
			}
		}
	})
	c.rec.Bulk("enum", ev, nt, classes)
	if shard == 0 {
		c.rec.F.Exhaustive = append(c.rec.F.Exhaustive, "version x base metrics (5,184) x 3 decoders")
	}

	c.rapidStage("rapid", pick(64000, 1000000), func(rt *rapid.T) {
		lv := gen.Level().Draw(rt, "decoder")
		vec := gen.ValidV3(lv).Draw(rt, "vector")
		cs := scoreCase3{Level: int(lv), NilRecv: rapid.Bool().Draw(rt, "nilrecv"), PreQuery: rapid.IntRange(0, 3).Draw(rt, "prequery") == 0, Input: vec.String()}
		isNT, cl := c01Labels(spec.IdxV3(vec))
		if vec.String() != spec.CanonV3(vec, lv) {
			cl = append(cl, "rapid:non-canonical")
		}
		c.rec.Case("rapid", fmt.Sprintf("%d|%s", cs.Level, cs.Input), isNT, cl...)
		if c.rec.SampleCount() < 8 {
			c.rec.Sample(cs)
		}
		evalCase(c, rt, "decode", cs, checkC01)
	})
	c.rec.SetExtra("roundup_readings_disagreements", spec.RoundupDisagreements.Load())
}
