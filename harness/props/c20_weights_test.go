//go:build !noweights

package props

import (
	m2 "github.com/goark/go-cvss/v2/metric"
	m3 "github.com/goark/go-cvss/v3/metric"
)

// The weight accessors (Value methods) are bound here, apart from the rest of the API table:
// their signatures are the part of the exported API most likely to be reshaped by a
// refactoring. When this file does not compile against the tree under test, the driver
// builds the harness with the tag "noweights": every check but C20 then runs as usual, and
// C20 reports itself inconclusive instead of taking every other check down with it.
func init() {
	weightsBound = true
	set := func(ver int, name string, f func(int64, wctx) float64) { apiOf(ver, name).withValue(f) }
	set(3, "AV", func(v int64, _ wctx) float64 { return m3.AttackVector(v).Value() })
	set(3, "AC", func(v int64, _ wctx) float64 { return m3.AttackComplexity(v).Value() })
	set(3, "PR", func(v int64, c wctx) float64 { return m3.PrivilegesRequired(v).Value(c.S) })
	set(3, "UI", func(v int64, _ wctx) float64 { return m3.UserInteraction(v).Value() })
	set(3, "C", func(v int64, _ wctx) float64 { return m3.ConfidentialityImpact(v).Value() })
	set(3, "I", func(v int64, _ wctx) float64 { return m3.IntegrityImpact(v).Value() })
	set(3, "A", func(v int64, _ wctx) float64 { return m3.AvailabilityImpact(v).Value() })
	set(3, "E", func(v int64, _ wctx) float64 { return m3.Exploitability(v).Value() })
	set(3, "RL", func(v int64, _ wctx) float64 { return m3.RemediationLevel(v).Value() })
	set(3, "RC", func(v int64, _ wctx) float64 { return m3.ReportConfidence(v).Value() })
	set(3, "CR", func(v int64, _ wctx) float64 { return m3.ConfidentialityRequirement(v).Value() })
	set(3, "IR", func(v int64, _ wctx) float64 { return m3.IntegrityRequirement(v).Value() })
	set(3, "AR", func(v int64, _ wctx) float64 { return m3.AvailabilityRequirement(v).Value() })
	set(3, "MAV", func(v int64, c wctx) float64 { return m3.ModifiedAttackVector(v).Value(c.AV) })
	set(3, "MAC", func(v int64, c wctx) float64 { return m3.ModifiedAttackComplexity(v).Value(c.AC) })
	set(3, "MPR", func(v int64, c wctx) float64 { return m3.ModifiedPrivilegesRequired(v).Value(c.MS, c.S, c.PR) })
	set(3, "MUI", func(v int64, c wctx) float64 { return m3.ModifiedUserInteraction(v).Value(c.UI) })
	set(3, "MC", func(v int64, c wctx) float64 { return m3.ModifiedConfidentialityImpact(v).Value(c.C) })
	set(3, "MI", func(v int64, c wctx) float64 { return m3.ModifiedIntegrityImpact(v).Value(c.I) })
	set(3, "MA", func(v int64, c wctx) float64 { return m3.ModifiedAvailabilityImpact(v).Value(c.A) })
	set(2, "AV", func(v int64, _ wctx) float64 { return m2.AccessVector(v).Value() })
	set(2, "AC", func(v int64, _ wctx) float64 { return m2.AccessComplexity(v).Value() })
	set(2, "Au", func(v int64, _ wctx) float64 { return m2.Authentication(v).Value() })
	set(2, "C", func(v int64, _ wctx) float64 { return m2.ConfidentialityImpact(v).Value() })
	set(2, "I", func(v int64, _ wctx) float64 { return m2.IntegrityImpact(v).Value() })
	set(2, "A", func(v int64, _ wctx) float64 { return m2.AvailabilityImpact(v).Value() })
	set(2, "E", func(v int64, _ wctx) float64 { return m2.Exploitability(v).Value() })
	set(2, "RL", func(v int64, _ wctx) float64 { return m2.RemediationLevel(v).Value() })
	set(2, "RC", func(v int64, _ wctx) float64 { return m2.ReportConfidence(v).Value() })
	set(2, "CDP", func(v int64, _ wctx) float64 { return m2.CollateralDamagePotential(v).Value() })
	set(2, "TD", func(v int64, _ wctx) float64 { return m2.TargetDistribution(v).Value() })
	set(2, "CR", func(v int64, _ wctx) float64 { return m2.ConfidentialityRequirement(v).Value() })
	set(2, "IR", func(v int64, _ wctx) float64 { return m2.IntegrityRequirement(v).Value() })
	set(2, "AR", func(v int64, _ wctx) float64 { return m2.AvailabilityRequirement(v).Value() })
}
