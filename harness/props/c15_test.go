package props

import (
	"encoding/json"
	"fmt"
	"io"
	"reflect"
	"strings"
	"testing"

	m2 "github.com/goark/go-cvss/v2/metric"
	m3 "github.com/goark/go-cvss/v3/metric"

	"github.com/goark/go-cvss/v3/report"
	"golang.org/x/text/language"
	"pgregory.net/rapid"
	"verif/harness/gen"
	"verif/harness/spec"
)

// C15 — queries never modify a metrics object; results are deterministic and history-free.
//
// Model-based: the object under test A is driven through a generated sequence of
// operations; after every step a fresh twin is rebuilt from A's recipe (decoder, input,
// field assignments) — the twin has never been queried — and everything observable about A
// must equal the twin (and the twin built right after the last assignment).

type op struct {
	Kind  string `json:"op"`              // q | report | set | noise | snapshot | redecode
	View  int    `json:"view,omitempty"`  // q: which level view
	Obs   string `json:"obs,omitempty"`   // q: score | severity | geterror | encode | string
	Field string `json:"field,omitempty"` // set: exported field name
	Index int    `json:"index,omitempty"` // set: index of the code in the specification's list, -1 = unknown/invalid
	// set: further fields assigned in the same step, with no query in between
	More   []fieldSet `json:"more_fields,omitempty"`
	Lang   string     `json:"lang,omitempty"`   // report
	Ver    int        `json:"ver,omitempty"`    // noise
	Level  int        `json:"level,omitempty"`  // noise
	Vector string     `json:"vector,omitempty"` // noise
}

type fieldSet struct {
	Field string `json:"field"`
	Index int    `json:"index"`
}

type opsCase struct {
	Ver     int  `json:"cvss_version"`
	Level   int  `json:"decoder_level"`
	NilRecv bool `json:"nil_receiver"`
	// PreQuery: every observer is called on the constructor result *before* Decode (a fresh
	// object may be queried; that must not influence what Decode produces)
	PreQuery bool `json:"query_before_decode,omitempty"`
	// FieldBuilt: the object is not decoded at all: it is the constructor result with every
	// exported field assigned from the (valid) vector Input, as properties C03 / C12 allow.
	FieldBuilt bool `json:"field_built,omitempty"`
	// PreAssign (v2 only): exported fields of the optional groups assigned on the constructor
	// result before its single Decode. A group the vector does not carry stays absent
	// whatever its fields hold, so only query results (not those raw fields) are compared.
	PreAssign []op   `json:"assigned_before_decode,omitempty"`
	Input     string `json:"input"`
	Ops       []op   `json:"ops"`
}

// subject is A or a twin: the object pointers of one version.
type subject struct {
	ver int
	o3  obj3
	o2  obj2
}

func (s subject) views() []view {
	if s.ver == 3 {
		return views3(s.o3.B, s.o3.T, s.o3.E, s.o3.level)
	}
	return views2(s.o2.B, s.o2.T, s.o2.E, s.o2.level)
}

func (s subject) snap() snapshot {
	if s.ver == 3 {
		return snap3(s.o3)
	}
	return snap2(s.o2)
}

func (s subject) top() any {
	if s.ver == 3 {
		switch s.o3.level {
		case spec.Base:
			return s.o3.B
		case spec.Temporal:
			return s.o3.T
		}
		return s.o3.E
	}
	switch s.o2.level {
	case spec.Base:
		return s.o2.B
	case spec.Temporal:
		return s.o2.T
	}
	return s.o2.E
}

// makeSubject decodes the input; on failure the subject is the receiver left behind.
func makeSubject(c opsCase) (subject, bool) {
	lv := spec.Level(c.Level)
	if c.FieldBuilt {
		return makeSubjectFieldBuilt(c)
	}
	if len(c.PreAssign) > 0 && !c.NilRecv {
		return makeSubjectPreAssigned(c)
	}
	if c.PreQuery && !c.NilRecv {
		return makeSubjectPreQueried(c)
	}
	if c.Ver == 3 {
		o, err := decode3Keep(lv, c.Input, c.NilRecv)
		if err != nil && c.NilRecv {
			return subject{}, false
		}
		return subject{ver: 3, o3: o}, true
	}
	o, err := decode2Keep(lv, c.Input, c.NilRecv)
	if err != nil && c.NilRecv {
		return subject{}, false
	}
	return subject{ver: 2, o2: o}, true
}

// makeSubjectPreQueried constructs the decoder, observes it completely, then decodes.
func makeSubjectPreQueried(c opsCase) (subject, bool) {
	lv := spec.Level(c.Level)
	if c.Ver == 3 {
		o := obj3{level: lv}
		switch lv {
		case spec.Base:
			o.B = m3.NewBase()
			subject{ver: 3, o3: o}.snap()
			o.B.Decode(c.Input)
		case spec.Temporal:
			o.T = m3.NewTemporal()
			o.B = o.T.BaseMetrics()
			subject{ver: 3, o3: o}.snap()
			o.T.Decode(c.Input)
		default:
			o.E = m3.NewEnvironmental()
			o.T, o.B = o.E.TemporalMetrics(), o.E.BaseMetrics()
			subject{ver: 3, o3: o}.snap()
			subject{ver: 3, o3: o}.reportOf("ja")
			o.E.Decode(c.Input)
		}
		return subject{ver: 3, o3: o}, true
	}
	o := obj2{level: lv}
	switch lv {
	case spec.Base:
		o.B = m2.NewBase()
		subject{ver: 2, o2: o}.snap()
		o.B.Decode(c.Input)
	case spec.Temporal:
		o.T = m2.NewTemporal()
		o.B = o.T.BaseMetrics()
		subject{ver: 2, o2: o}.snap()
		o.T.Decode(c.Input)
	default:
		o.E = m2.NewEnvironmental()
		o.T, o.B = o.E.TemporalMetrics(), o.E.BaseMetrics()
		subject{ver: 2, o2: o}.snap()
		o.E.Decode(c.Input)
	}
	return subject{ver: 2, o2: o}, true
}

// makeSubjectFieldBuilt: constructor result + assignment of every exported field.
func makeSubjectFieldBuilt(c opsCase) (subject, bool) {
	lv := spec.Level(c.Level)
	var s subject
	var ref spec.Vec
	var ok bool
	if c.Ver == 3 {
		if ref, ok = spec.AcceptV3(c.Input, lv); !ok {
			return subject{}, false
		}
		o := obj3{level: lv}
		switch lv {
		case spec.Base:
			o.B = m3.NewBase()
		case spec.Temporal:
			o.T = m3.NewTemporal()
			o.B = o.T.BaseMetrics()
		default:
			o.E = m3.NewEnvironmental()
			o.T, o.B = o.E.TemporalMetrics(), o.E.BaseMetrics()
		}
		s = subject{ver: 3, o3: o}
		idx := 0
		if ref.Ver == "3.1" {
			idx = 1
		}
		s.setField("Ver", constOf(3, "Ver", idx))
		for _, m := range spec.UpTo(spec.V3Metrics, lv) {
			i := 0
			if val, written := ref.Get(m.Name); written {
				i = m.Index(val)
			}
			s.setField(m.Name, constOf(3, m.Name, i))
		}
		s.o3 = s.o3.refreshed()
		return s, true
	}
	if ref, ok = spec.AcceptV2(c.Input, lv); !ok {
		return subject{}, false
	}
	// v2: the groups that are present are fixed by Decode (names); the object is decoded
	// from a template of the same shape and then every field is assigned
	hasT, hasE := spec.V2Shape(ref)
	tmpl := gen.V2FromIdx([6]int{}, hasT, [3]int{}, hasE, [5]int{}).String()
	o, err := decode2(lv, tmpl, false)
	if err != nil {
		return subject{}, false
	}
	s = subject{ver: 2, o2: o}
	for _, t := range ref.Toks {
		m := spec.ByName(spec.V2Metrics, t.Name)
		s.setField(t.Name, constOf(2, t.Name, m.Index(t.Value)))
	}
	return s, true
}

// makeSubjectPreAssigned: constructor, assignments, optionally a complete observation, then
// the single Decode. v2: any field (a group the vector does not carry stays absent whatever
// its fields hold). v3: base fields, the version, and optional metrics the vector writes (explicit X
// included) — a successful Decode stores all of those, whereas optional fields the vector
// omits keep what the caller wrote.
func makeSubjectPreAssigned(c opsCase) (subject, bool) {
	lv := spec.Level(c.Level)
	var s subject
	if c.Ver == 2 {
		o := obj2{level: lv}
		switch lv {
		case spec.Base:
			o.B = m2.NewBase()
		case spec.Temporal:
			o.T = m2.NewTemporal()
			o.B = o.T.BaseMetrics()
		default:
			o.E = m2.NewEnvironmental()
			o.T, o.B = o.E.TemporalMetrics(), o.E.BaseMetrics()
		}
		s = subject{ver: 2, o2: o}
	} else {
		o := obj3{level: lv}
		switch lv {
		case spec.Base:
			o.B = m3.NewBase()
		case spec.Temporal:
			o.T = m3.NewTemporal()
			o.B = o.T.BaseMetrics()
		default:
			o.E = m3.NewEnvironmental()
			o.T, o.B = o.E.TemporalMetrics(), o.E.BaseMetrics()
		}
		s = subject{ver: 3, o3: o}
	}
	written := map[string]bool{}
	for _, seg := range strings.Split(c.Input, "/") {
		if k, _, ok := strings.Cut(seg, ":"); ok {
			written[k] = true
		}
	}
	for _, as := range c.PreAssign {
		m := metricOf(c.Ver, as.Field)
		// v3 optional metrics only when the vector writes them (explicit X included): then the
		// Decode must store what is written
		if c.Ver == 3 && !(as.Field == "Ver" || (m != nil && (m.Level == spec.Base || written[as.Field]))) {
			continue
		}
		if val, ok := fieldValue(c.Ver, as.Field, as.Index); ok {
			s.setField(as.Field, val)
		}
	}
	if c.PreQuery {
		s.snap()
		if c.Ver == 3 {
			s.reportOf("ja")
		}
	}
	s.redecode(c.Input)
	return s, true
}

// redecode calls Decode a second time on the subject's own top-level object.
func (s subject) redecode(vector string) error {
	var err error
	if s.ver == 3 {
		switch s.o3.level {
		case spec.Base:
			_, err = s.o3.B.Decode(vector)
		case spec.Temporal:
			_, err = s.o3.T.Decode(vector)
		default:
			_, err = s.o3.E.Decode(vector)
		}
		return err
	}
	switch s.o2.level {
	case spec.Base:
		_, err = s.o2.B.Decode(vector)
	case spec.Temporal:
		_, err = s.o2.T.Decode(vector)
	default:
		_, err = s.o2.E.Decode(vector)
	}
	return err
}

// setField assigns an exported enumeration field of the subject by name.
func (s subject) setField(name string, value int64) bool {
	var targets []any
	if s.ver == 3 {
		targets = []any{s.o3.E, s.o3.T, s.o3.B}
	} else {
		targets = []any{s.o2.E, s.o2.T, s.o2.B}
	}
	for _, t := range targets {
		v := reflect.ValueOf(t)
		if v.IsNil() {
			continue
		}
		f := v.Elem().FieldByName(name)
		if f.IsValid() && f.CanSet() && f.Kind() >= reflect.Int && f.Kind() <= reflect.Int64 {
			// promoted fields resolve to the same storage whichever level is used
			f.SetInt(value)
			return true
		}
	}
	return false
}

func fieldValue(ver int, name string, idx int) (int64, bool) {
	if idx < 0 {
		return 0, true
	}
	m := metricOf(ver, name)
	if name == "Ver" && ver == 3 {
		if idx > 1 {
			return 0, false
		}
		return constOf(3, "Ver", idx), true
	}
	if m == nil || idx >= len(m.Codes) {
		return 0, false
	}
	return constOf(ver, name, idx), true
}

// reportDefault builds the report without any option (the library's default language).
func (s subject) reportDefault() any {
	if s.ver != 3 {
		return nil
	}
	switch s.o3.level {
	case spec.Base:
		return report.NewBase(s.o3.B)
	case spec.Temporal:
		return report.NewTemporal(s.o3.T)
	}
	return report.NewEnvironmental(s.o3.E)
}

func (s subject) reportOf(lang string) any {
	if s.ver != 3 {
		return nil
	}
	if lang == "" {
		return s.reportDefault()
	}
	tag := language.Make(lang)
	switch s.o3.level {
	case spec.Base:
		return report.NewBase(s.o3.B, report.WithOptionsLanguage(tag))
	case spec.Temporal:
		return report.NewTemporal(s.o3.T, report.WithOptionsLanguage(tag))
	}
	return report.NewEnvironmental(s.o3.E, report.WithOptionsLanguage(tag))
}

func observe(v view, obs string) string {
	switch obs {
	case "score":
		return fmt.Sprintf("%v", v.score())
	case "severity":
		return v.sev()
	case "geterror":
		return errStr(v.getErr())
	case "encode":
		e, err := v.encode()
		return e + "|" + errStr(err)
	default:
		return v.str()
	}
}

// c15Templates are exported (option-less report, fixed templates) before and after the
// history; results must not depend on what was exported in between.
// The history-sensitive forms (empty, blank, a call of a template that only an earlier
// export defined) come first, so that what they render would depend on the last export
// made before the sweep if the library kept template state between exports.
var c15Templates = []string{"", " ", "{{template \"x\" .Version}}", "{{.Vector}} {{.SeverityValue}} {{.BaseScore}}", "{{define \"x\"}}[{{.}}]{{end}}", "{{.Nope}}", "{{if .}}y{{end}}"}

func exportAll(s subject) []string {
	if s.ver != 3 {
		return nil
	}
	ex, ok := s.reportOf("en").(exporter)
	if !ok {
		return nil
	}
	out := make([]string, len(c15Templates))
	for i, tp := range c15Templates {
		r, err := ex.ExportWithString(tp)
		if err != nil {
			out[i] = "error:" + errStr(err)
			continue
		}
		b, _ := io.ReadAll(r)
		out[i] = string(b)
	}
	return out
}

var checkC15 = register("C15/ops", func(c opsCase) string {
	if (c.Ver != 2 && c.Ver != 3) || c.Level < 0 || c.Level > 2 {
		return ""
	}
	a, ok := makeSubject(c)
	if !ok {
		return ""
	}
	initialOK := !c.FieldBuilt && refAccept(newStrCase(c.Ver, spec.Level(c.Level), false, c.Input))
	dirty := false
	recipe := c
	recipe.Ops = nil
	recipe.PreQuery = false // the twin is never queried before its Decode
	recipe.PreAssign = nil  // ... nor assigned before it
	// v2, fields assigned before the Decode: if every assigned field belongs to a group the
	// vector writes, the Decode overwrites them all and the object must equal a plain decode;
	// if a field of a group the vector does not carry was assigned, only self-consistency is
	// required (see below)
	viewsOnly := false
	if len(c.PreAssign) > 0 && c.Ver == 2 && !c.NilRecv {
		if ref, ok := spec.AcceptV2(c.Input, spec.Level(c.Level)); ok {
			hasT, hasE := spec.V2Shape(ref)
			for _, as := range c.PreAssign {
				if m := spec.ByName(spec.V2Metrics, as.Field); m != nil && ((m.Level == spec.Temporal && !hasT) || (m.Level == spec.Environmental && !hasE)) {
					viewsOnly = true
				}
			}
		} else {
			viewsOnly = true
		}
	}
	strip := func(s snapshot) snapshot {
		if viewsOnly {
			s.Fields = nil
		}
		return s
	}
	var assigns []op
	// a report built at the start is kept; nothing done later may change its content
	var heldReport any
	heldJSON := ""
	if c.Ver == 3 {
		heldReport = a.reportOf("ja")
		b, _ := json.Marshal(heldReport)
		heldJSON = string(b)
	}
	twin := func() subject {
		t, _ := makeSubject(recipe)
		for _, as := range assigns {
			if val, ok := fieldValue(c.Ver, as.Field, as.Index); ok {
				t.setField(as.Field, val)
			}
		}
		return t
	}
	reference := strip(twin().snap()) // the object as a process without history sees it
	pr0, _ := makeSubject(recipe)
	pristine0 := pr0.snap()               // a plain decode of the input before any history
	defaultReport0 := pr0.reportDefault() // the option-less report before any history
	exports0 := exportAll(pr0)            // template exports before any history
	var immediate *snapshot               // observation of A taken right after an assignment, before anything else ran
	check := func(step int, o op) string {
		tw := twin()
		sa := strip(a.snap())
		if immediate != nil {
			// what A answered immediately after the assignment (nothing else was scored in
			// between) is what must equal the twin; A's later answer must equal it too
			if d := strip(*immediate).diff(sa); d != "" {
				return fmt.Sprintf("after step %d (%+v) the object answered differently right after the assignment and a moment later: %s", step, o, d)
			}
			immediate = nil
		}
		st := strip(tw.snap())
		if viewsOnly {
			// v2 object with fields assigned before its Decode: whether a group the vector
			// does not carry counts as present afterwards is the library's choice (today the
			// decoder's bookkeeping decides, so the assignment is ignored; a library that let
			// the fields decide would be as good). What must hold either way: the object is
			// the object its own encoding describes.
			if m := roundTripConsistent(a, c); m != "" {
				return fmt.Sprintf("after step %d (%+v) %s", step, o, m)
			}
		} else if d := sa.diff(st); d != "" {
			return fmt.Sprintf("after step %d (%+v) the queried object differs from a freshly built twin: %s", step, o, d)
		}
		if d := st.diff(reference); d != "" {
			return fmt.Sprintf("after step %d (%+v) a freshly built twin differs from the one built before the history: %s", step, o, d)
		}
		if pr, ok := makeSubject(recipe); ok {
			if d := pr.snap().diff(pristine0); d != "" {
				return fmt.Sprintf("after step %d (%+v) decoding the same input again gives a different object than before the history: %s", step, o, d)
			}
			if c.Ver == 3 {
				if ex := exportAll(pr); !reflect.DeepEqual(ex, exports0) {
					return fmt.Sprintf("after step %d (%+v) template exports of a fresh decode differ from the ones made before the history: %q vs %q", step, o, ex, exports0)
				}
				if rd := pr.reportDefault(); !reflect.DeepEqual(rd, defaultReport0) {
					return fmt.Sprintf("after step %d (%+v) the option-less report of a fresh decode differs from the one built before the history: %+v vs %+v", step, o, rd, defaultReport0)
				}
			}
		}
		if len(assigns) > 0 {
			if m := roundTripConsistent(a, c); m != "" {
				return fmt.Sprintf("after step %d (%+v) %s", step, o, m)
			}
		}
		if heldReport != nil && len(assigns) == 0 {
			if b, _ := json.Marshal(heldReport); string(b) != heldJSON {
				return fmt.Sprintf("after step %d (%+v) a report built at the start changed its content: %s vs %s", step, o, b, heldJSON)
			}
		}
		if c.Ver == 3 {
			for _, lg := range []string{"en", "ja"} {
				ra, rt := a.reportOf(lg), tw.reportOf(lg)
				if !reflect.DeepEqual(ra, rt) {
					return fmt.Sprintf("after step %d (%+v) the %s report of the queried object differs from the twin's: %+v vs %+v", step, o, lg, ra, rt)
				}
			}
		}
		return ""
	}
	if m := check(0, op{Kind: "initial"}); m != "" {
		return m
	}
	for i, o := range c.Ops {
		switch o.Kind {
		case "q":
			vs := a.views()
			v := vs[((o.View%len(vs))+len(vs))%len(vs)]
			r1 := observe(v, o.Obs)
			r2 := observe(v, o.Obs)
			if r1 != r2 {
				return fmt.Sprintf("step %d: %s of %s returned %q then %q", i+1, o.Obs, v.name, r1, r2)
			}
		case "snapshot":
			s1, s2 := a.snap(), a.snap()
			if d := s1.diff(s2); d != "" {
				return fmt.Sprintf("step %d: two consecutive full observations differ: %s", i+1, d)
			}
		case "report":
			if c.Ver == 3 {
				r1 := a.reportOf(o.Lang)
				r2 := a.reportOf(o.Lang)
				if !reflect.DeepEqual(r1, r2) {
					return fmt.Sprintf("step %d: two consecutive reports differ", i+1)
				}
				if ex, ok := r1.(exporter); ok {
					ex.ExportWithString(c15Templates[3+(i+len(o.Lang))%2]) // a rendering export or a define-only export
				}
			}
		case "set":
			if dirty {
				continue
			}
			val, ok := fieldValue(c.Ver, o.Field, o.Index)
			if !ok {
				continue
			}
			a.snap() // query, assign, query — with no other object touched in between
			if !a.setField(o.Field, val) {
				continue
			}
			assigns = append(assigns, o)
			for _, m := range o.More { // several fields change before the next query
				if v2, ok := fieldValue(c.Ver, m.Field, m.Index); ok && a.setField(m.Field, v2) {
					assigns = append(assigns, op{Kind: "set", Field: m.Field, Index: m.Index})
				}
			}
			im := a.snap()
			immediate = &im
			reference = strip(twin().snap())
		case "redecode":
			// A further Decode on an object that has been decoded successfully before. The
			// unchanged library always refuses it (same metric); if it is accepted, the object
			// must be exactly what a fresh decoder produces for that string. Not generated for
			// receivers of a failed first Decode (what they accept later is outside every
			// property's quantifier) nor once the harness has assigned a field (Decode does not
			// promise to reset fields a caller wrote).
			if c.NilRecv && !initialOK || !initialOK || len(assigns) > 0 || c.FieldBuilt || viewsOnly {
				continue
			}
			err := a.redecode(o.Vector)
			if err != nil {
				dirty = true // refused: the object's state is unspecified until a Decode succeeds
				continue
			}
			fresh, ok := makeSubject(opsCase{Ver: c.Ver, Level: c.Level, Input: o.Vector})
			if !ok {
				continue
			}
			if !refAccept(newStrCase(c.Ver, spec.Level(c.Level), false, o.Vector)) {
				return fmt.Sprintf("step %d: a further Decode(%q) on a used object succeeded although a fresh decoder rejects that string", i+1, o.Vector)
			}
			if d := a.snap().diff(fresh.snap()); d != "" {
				return fmt.Sprintf("step %d: a further Decode(%q) on a used object succeeded but the object differs from a fresh decode: %s", i+1, o.Vector, d)
			}
			dirty = false
			recipe.Input = o.Vector
			assigns = nil
			viewsOnly = false
			reference = twin().snap()
			pr1, _ := makeSubject(recipe)
			pristine0 = pr1.snap()
			defaultReport0 = pr1.reportDefault()
			exports0 = exportAll(pr1)
			heldReport = nil
		case "noise":
			if o.Ver == 3 {
				if n, err := decode3(spec.Level(((o.Level%3)+3)%3), o.Vector, false); err == nil {
					s := subject{ver: 3, o3: n}
					s.snap()
					s.reportOf("ja")
				}
			} else {
				if n, err := decode2(spec.Level(((o.Level%3)+3)%3), o.Vector, false); err == nil {
					subject{ver: 2, o2: n}.snap()
				}
			}
		default:
			continue
		}
		if dirty {
			continue // after a refused Decode nothing is asserted until a Decode succeeds
		}
		if m := check(i+1, o); m != "" {
			return m
		}
	}
	return ""
})

// roundTripConsistent: an object whose exported fields were assigned after (or instead of)
// a Decode and that declares itself valid must be the object its own encoding describes:
// a fresh decoder of the same level fed a.Encode() must report the same scores, severities
// and encodings at every view (C10's round trip, applied to objects reached by
// assignment; C03 and C12 name assignment as a way to reach objects). Only the library is
// compared with itself; nothing is asserted when the object is invalid, its encoding
// fails, or a fresh decoder refuses the encoding.
func roundTripConsistent(a subject, c opsCase) string {
	vs := a.views()
	if len(vs) == 0 {
		return ""
	}
	top := vs[0]
	if observe(top, "geterror") != "" {
		return ""
	}
	enc := observe(top, "encode")
	const okSuffix = "|"
	if !strings.HasSuffix(enc, okSuffix) {
		return ""
	}
	text := strings.TrimSuffix(enc, okSuffix)
	fresh, ok := makeSubject(opsCase{Ver: c.Ver, Level: c.Level, Input: text, NilRecv: true})
	if !ok {
		return ""
	}
	fv := fresh.views()
	if len(fv) != len(vs) {
		return ""
	}
	for i := range vs {
		for _, obs := range []string{"score", "severity", "encode"} {
			if x, y := observe(vs[i], obs), observe(fv[i], obs); x != y {
				return fmt.Sprintf("the object (fields assigned) encodes itself as %q, but a fresh decode of that text answers %s of view %s with %s where the object answers %s", text, obs, vs[i].name, y, x)
			}
		}
	}
	return ""
}

// interleaveCase: the scores of one vector must not depend on which other vector the
// process scored just before (every object is built freshly by field assignment).
type interleaveCase struct {
	Before1 fieldCase3 `json:"scored_before_first_time"`
	Before2 fieldCase3 `json:"scored_before_second_time"`
	V       fieldCase3 `json:"vector"`
}

func scores3(f fieldCase3) [3]float64 {
	e := build3(f)
	return [3]float64{e.Score(), e.TemporalMetrics().Score(), e.BaseMetrics().Score()}
}

var checkC15Interleave = register("C15/interleave", func(c interleaveCase) string {
	if !inRange3(c.Before1) || !inRange3(c.Before2) || !inRange3(c.V) {
		return ""
	}
	scores3(c.Before1)
	s1 := scores3(c.V)
	scores3(c.Before2)
	s2 := scores3(c.V)
	if s1 != s2 {
		return fmt.Sprintf("scores (environmental, temporal, base) of %s are %v when %s was scored just before and %v when %s was", c.V.withText().Text, s1, c.Before1.withText().Text, s2, c.Before2.withText().Text)
	}
	return ""
})

// parserCase: repeated parsing of one code must always give the same value (the parsers
// iterate over maps, whose order is randomised).
type parserCase struct {
	Ver    int    `json:"cvss_version"`
	Metric string `json:"metric"`
	Code   string `json:"code"`
	Times  int    `json:"times"`
}

var checkC15Parser = register("C15/parser", func(c parserCase) string {
	a := apiOf(c.Ver, c.Metric)
	if a == nil {
		return ""
	}
	first := a.get(c.Code)
	for i := 0; i < c.Times; i++ {
		if v := a.get(c.Code); v != first {
			return fmt.Sprintf("v%d %s: parsing %q gave %d and then %d", c.Ver, c.Metric, c.Code, first, v)
		}
		if s1, s2 := a.str(first), a.str(first); s1 != s2 {
			return fmt.Sprintf("v%d %s: printing %d gave %q and then %q", c.Ver, c.Metric, first, s1, s2)
		}
	}
	return ""
})

func drawOps(rt *rapid.T, ver int, level spec.Level) []op {
	var fields []string
	for _, fl := range fieldsOf(ver, level) {
		fields = append(fields, fl[0].(string))
	}
	n := rapid.IntRange(1, 40).Draw(rt, "nops")
	ops := make([]op, 0, n)
	for i := 0; i < n; i++ {
		switch k := rapid.IntRange(0, 19).Draw(rt, "opkind"); {
		case k < 9:
			ops = append(ops, op{Kind: "q", View: rapid.IntRange(0, 5).Draw(rt, "view"), Obs: rapid.SampledFrom([]string{"score", "severity", "geterror", "encode", "string"}).Draw(rt, "obs")})
		case k < 11:
			ops = append(ops, op{Kind: "snapshot"})
		case k < 13:
			ops = append(ops, op{Kind: "report", Lang: rapid.SampledFrom([]string{"en", "ja", "ja", "fr", ""}).Draw(rt, "lang")})
		case k < 16:
			f := rapid.SampledFrom(fields).Draw(rt, "field")
			if ver == 3 && rapid.IntRange(0, 7).Draw(rt, "setver") == 0 {
				f = "Ver"
			}
			o := op{Kind: "set", Field: f, Index: rapid.IntRange(-1, 4).Draw(rt, "index")}
			for nm := rapid.SampledFrom([]int{0, 0, 0, 1, 1, 2, 3}).Draw(rt, "morefields"); nm > 0; nm-- {
				o.More = append(o.More, fieldSet{Field: rapid.SampledFrom(fields).Draw(rt, "field2"), Index: rapid.IntRange(0, 4).Draw(rt, "index2")})
			}
			ops = append(ops, o)
		case k < 17:
			var vec string
			if rapid.IntRange(0, 3).Draw(rt, "redecodeinvalid") == 0 {
				vec, _ = gen.Mutated(rt, ver)
			} else {
				vec = gen.Valid(ver, level).Draw(rt, "redecodevec").String()
			}
			ops = append(ops, op{Kind: "redecode", Vector: vec})
		default:
			nv := rapid.SampledFrom([]int{2, 3}).Draw(rt, "noisever")
			nl := gen.Level().Draw(rt, "noiselevel")
			ops = append(ops, op{Kind: "noise", Ver: nv, Level: int(nl), Vector: gen.Valid(nv, nl).Draw(rt, "noisevec").String()})
		}
	}
	return ops
}

func TestC15(t *testing.T) {
	c := begin(t, "C15")
	defer c.end()
	c.rec.F.Rule = "rapid operation sequences (1-40 steps) over an object obtained from a v2 or v3 decoder of any level on a valid, mutated or arbitrary input (successful object, or the receiver left behind by a failed decode): observer queries (Score, Severity, GetError, Encode, String on every level view reached through the accessors), full observations, report construction and export, exported-field assignments (any code or the unknown/invalid constant), further Decodes on an object that was decoded successfully (each must fail, or yield exactly what a fresh decoder yields; after a refused one nothing is asserted until one succeeds), and noise (decoding, querying and reporting other vectors); one case in four queries the constructor result completely *before* its Decode. Subjects are also built by pure field assignment on a constructor result (no Decode), and v2 subjects may have optional-group fields assigned before their Decode (then the object must answer like a fresh decode of its own encoding). A deterministic sweep runs query / assign / query for every exported field x every value on 6 representative vectors, for decoded, pre-queried and field-built subjects. After every step the queried object must equal a freshly decoded, never-queried twin rebuilt from the recipe (exported fields by reflection, every query result at every level, v3 report structs in en and ja), the twin must equal the twin built before the history, and every query repeated twice must agree. Parsers: every code of every metric parsed 200 times. Non-trivial = a sequence containing a query, a later field assignment and a later query, or any query on a failed-decode receiver; distinct by hash of the case."
	c.rec.F.Assumptions = []string{"only observable state is compared (exported fields and query results), as the property words it", "further Decode calls are made only on an object whose previous Decode succeeded and whose fields the harness has not assigned since; after a refused Decode nothing is asserted about the receiver until a Decode succeeds"}
	nviol := 0
	if shard == 0 {
		for _, a := range apis {
			for _, code := range metricOf(a.ver, a.name).Codes {
				cs := parserCase{Ver: a.ver, Metric: a.name, Code: code, Times: 200}
				c.rec.Case("parsers", fmt.Sprintf("parser|%d|%s|%s", a.ver, a.name, code), true, "parser-repeat")
				evalEnum(c, "parser", cs, checkC15Parser, &nviol)
			}
		}
	}
	// ---- systematic query / assign / query sweep: every exported field x every value on
	// representative vectors (including scope-changed ones, where the two v3 versions differ)
	{
		i := 0
		vecs := map[int][]string{
			3: {representatives(3)[4].String(), "CVSS:3.1/AV:N/AC:L/PR:N/UI:N/S:C/C:H/I:H/A:H", "CVSS:3.0/AV:P/AC:H/PR:H/UI:R/S:C/C:H/I:H/A:H/E:F/RL:W/RC:R/MS:X/MC:H", "CVSS:3.1/AV:L/AC:L/PR:L/UI:N/S:U/C:L/I:N/A:H/E:P/CR:H/MS:C/MPR:H"},
			2: {representatives(2)[4].String(), "AV:L/AC:M/Au:S/C:P/I:N/A:C/E:POC/RL:TF/RC:UR/CDP:H/TD:M/CR:L/IR:H/AR:M"},
		}
		for _, ver := range []int{3, 2} {
			for _, vec := range vecs[ver] {
				for _, fl := range fieldsOf(ver, spec.Environmental) {
					name := fl[0].(string)
					max := 1
					if m := metricOf(ver, name); m != nil {
						max = len(m.Codes) - 1
					}
					for idx := -1; idx <= max; idx++ {
						for mode := 0; mode < 3; mode++ {
							i++
							if nviol > 0 || !mine(i) {
								continue
							}
							cs := opsCase{Ver: ver, Level: 2, PreQuery: mode == 1, FieldBuilt: mode == 2, Input: vec, Ops: []op{{Kind: "snapshot"}, {Kind: "set", Field: name, Index: idx}, {Kind: "snapshot"}, {Kind: "report", Lang: ""}}}
							c.rec.Case("query-set-query-sweep", fmt.Sprintf("%+v", cs), true, "sweep:query-set-query")
							evalEnum(c, "ops", cs, checkC15, &nviol)
						}
					}
				}
			}
		}
	}
	// ---- pairwise transition sweep: for every decoder level of both versions, two full
	// vectors with different values everywhere; one context metric g takes each of its values,
	// then the decoded object is observed, one other field f is assigned each of its values,
	// and the object is observed again (twin, immediate observation and the round trip through
	// its own encoding). Reaches defects that need "f changes while g has one particular value".
	{
		i := 0
		for _, ver := range []int{3, 2} {
			for _, lv := range []spec.Level{spec.Base, spec.Temporal, spec.Environmental} {
				ms := spec.UpTo(spec.V3Metrics, lv)
				if ver == 2 {
					ms = spec.UpTo(spec.V2Metrics, lv)
				}
				for variant := 0; variant < 2; variant++ {
					pickCode := func(m *spec.Metric) string {
						if variant == 0 {
							return m.Codes[len(m.Codes)-1]
						}
						return m.Codes[(len(m.Codes)-1)/2]
					}
					for _, g := range ms {
						for _, gb := range g.Codes {
							v := spec.Vec{}
							if ver == 3 {
								v.Ver = spec.V3Versions[variant]
							}
							for _, m := range ms {
								code := pickCode(m)
								if m == g {
									code = gb
								}
								v.Toks = append(v.Toks, spec.Tok{Name: m.Name, Value: code})
							}
							vec := v.String()
							for _, f := range ms {
								if f == g {
									continue
								}
								for idx := range f.Codes {
									i++
									if nviol > 0 || !mine(i) {
										continue
									}
									cs := opsCase{Ver: ver, Level: int(lv), Input: vec, Ops: []op{{Kind: "snapshot"}, {Kind: "set", Field: f.Name, Index: idx}}}
									c.rec.Case("pairwise-transition-sweep", fmt.Sprintf("%+v", cs), true, "sweep:pairwise-transition")
									evalEnum(c, "ops", cs, checkC15, &nviol)
								}
							}
							// the same with a partial vector: of the optional metrics only g is written
							// (v3; v2 groups are all-or-nothing), then another optional field is assigned
							if ver == 3 && g.Level > spec.Base && variant == 0 {
								pv := spec.Vec{Ver: v.Ver}
								for _, tk := range v.Toks {
									if m := spec.ByName(spec.V3Metrics, tk.Name); m.Level == spec.Base || m == g {
										pv.Toks = append(pv.Toks, tk)
									}
								}
								pvec := pv.String()
								for _, f := range ms {
									if f == g || f.Level == spec.Base {
										continue
									}
									for idx := 1; idx < len(f.Codes); idx++ {
										i++
										if nviol > 0 || !mine(i) {
											continue
										}
										cs := opsCase{Ver: ver, Level: int(lv), Input: pvec, Ops: []op{{Kind: "snapshot"}, {Kind: "set", Field: f.Name, Index: idx}}}
										c.rec.Case("pairwise-transition-sweep", fmt.Sprintf("%+v", cs), true, "sweep:partial-vector-then-assignment")
										evalEnum(c, "ops", cs, checkC15, &nviol)
									}
								}
							}
						}
					}
				}
			}
		}
	}
	// ---- v2: every optional-group field assigned (all values) on the constructor result, then a
	// vector without that group is decoded: the group must stay absent for every query
	{
		i := 0
		for _, lv := range []spec.Level{spec.Temporal, spec.Environmental} {
			for _, vec := range []string{"AV:N/AC:L/Au:N/C:N/I:N/A:C", "AV:L/AC:M/Au:S/C:P/I:P/A:P", "AV:N/AC:L/Au:N/C:C/I:C/A:C/E:F/RL:OF/RC:C"} {
				if _, ok := spec.AcceptV2(vec, lv); !ok {
					continue
				}
				for k := 0; k < 6; k++ {
					i++
					if nviol > 0 || !mine(i) {
						continue
					}
					var pre []op
					for _, m := range spec.UpTo(spec.V2Metrics, lv) {
						if m.Level > spec.Base {
							pre = append(pre, op{Kind: "set", Field: m.Name, Index: (k + len(m.Name)) % len(m.Codes)})
						}
					}
					cs := opsCase{Ver: 2, Level: int(lv), Input: vec, PreAssign: pre, Ops: []op{{Kind: "snapshot"}}}
					c.rec.Case("v2-preassign-sweep", fmt.Sprintf("%+v", cs), true, "sweep:v2-fields-assigned-before-decode")
					evalEnum(c, "ops", cs, checkC15, &nviol)
				}
			}
		}
	}
	// ---- interleave flood: a stream of random v3 objects (fields assigned, every object fresh)
	// is scored at all three levels in one order and then in another; each vector must answer
	// the same both times. State that scoring keeps *between objects* (a last-result memo, a
	// coarse key) shows only for particular neighbours — probability per pair is small, so
	// the stage is built for volume.
	{
		n := int(pick(120000, 3000000))
		r := gen.NewRng(uint64(seed)*104729 + uint64(shard) + 17)
		fs := make([]fieldCase3, n)
		for i := range fs {
			f := &fs[i]
			f.Ver = r.Intn(2)
			dims := [8]int{4, 2, 3, 2, 2, 3, 3, 3}
			for k := range f.B {
				f.B[k] = r.Intn(dims[k])
			}
			for k, m := range spec.V3T() {
				f.T[k] = r.Intn(len(m.Codes))
			}
			for k, m := range spec.V3E() {
				f.E[k] = r.Intn(len(m.Codes))
			}
			if i%3 == 0 { // scope-changed vectors with defined impact are where the arithmetic is richest
				f.B[4], f.E[7] = 1, r.Intn(2)*2
			}
		}
		first := make([][3]float64, n)
		for i := range fs {
			first[i] = scores3(fs[i])
		}
		nviol := 0
		key := mix(uint64(seed), 0xc15)
		prev := -1
		for k := 0; k < n && nviol == 0; k++ {
			i := int(permIndex(uint64(k), uint64(n), key))
			if got := scores3(fs[i]); got != first[i] {
				cs := interleaveCase{V: fs[i]}
				if i > 0 {
					cs.Before1 = fs[i-1]
				} else {
					cs.Before1 = fs[i]
				}
				if prev >= 0 {
					cs.Before2 = fs[prev]
				} else {
					cs.Before2 = fs[n-1]
				}
				evalEnum(c, "interleave", cs, checkC15Interleave, &nviol)
				if nviol == 0 {
					c.violation("interleave", cs, fmt.Sprintf("scores of one vector differ between two passes over the same stream: %v then %v (not reproduced from the two predecessors alone)", first[i], got))
					nviol++
				}
			}
			prev = i
		}
		c.rec.Bulk("interleave-flood", int64(2*n), int64(2*n), map[string]int64{"interleave:v3-object-scored-in-two-orders": int64(n)})
	}
	c.rapidStage("sequences", pick(16000, 300000), func(rt *rapid.T) {
		ver := rapid.SampledFrom([]int{2, 3}).Draw(rt, "version")
		var cs opsCase
		var cl []string
		switch rapid.IntRange(0, 4).Draw(rt, "inputkind") {
		case 0, 1, 2:
			lv := gen.Level().Draw(rt, "decoder")
			cs = opsCase{Ver: ver, Level: int(lv), NilRecv: rapid.IntRange(0, 4).Draw(rt, "nilrecv") == 0, Input: gen.Valid(ver, lv).Draw(rt, "valid").String()}
			cs.PreQuery = !cs.NilRecv && rapid.IntRange(0, 3).Draw(rt, "prequery") == 0
			switch rapid.IntRange(0, 7).Draw(rt, "buildkind") {
			case 0: // the object is built by field assignment instead of Decode
				cs.FieldBuilt, cs.NilRecv, cs.PreQuery = true, false, false
				cl = append(cl, "subject:field-built")
			case 1, 2: // fields assigned on the constructor result before the single Decode
				if !cs.NilRecv {
					// half of the time the base fields are given exactly the values the vector
					// is going to write (an object "prepared" by hand and then decoded)
					same := rapid.Bool().Draw(rt, "presame")
					written := map[string]string{}
					for _, seg := range strings.Split(cs.Input, "/") {
						if k, v, ok := strings.Cut(seg, ":"); ok {
							written[k] = v
						}
					}
					tab := spec.V3Metrics
					if ver == 2 {
						tab = spec.V2Metrics
					}
					for _, m := range spec.UpTo(tab, lv) {
						if ver == 3 && m.Level > spec.Base {
							if _, w := written[m.Name]; !w {
								continue // v3: an optional metric the vector omits keeps what the caller wrote
							}
						}
						if m.Level > spec.Base && !rapid.Bool().Draw(rt, "pre"+m.Name) {
							continue
						}
						idx := rapid.IntRange(0, len(m.Codes)-1).Draw(rt, "preidx")
						if same && m.Level == spec.Base {
							if i := m.Index(written[m.Name]); i >= 0 {
								idx = i
							}
						}
						cs.PreAssign = append(cs.PreAssign, op{Kind: "set", Field: m.Name, Index: idx})
					}
					cl = append(cl, "subject:fields-assigned-before-decode")
				}
			}
			cl = append(cl, "input:valid")
		default:
			sc, _ := drawStringCase(rt, ver, 64)
			cs = opsCase{Ver: ver, Level: sc.Level, NilRecv: false, Input: string(sc.Input)}
			cl = append(cl, "input:mutated-or-arbitrary")
		}
		cs.Ops = drawOps(rt, ver, spec.Level(cs.Level))
		failed := !refAccept(newStrCase(ver, spec.Level(cs.Level), false, cs.Input))
		if failed {
			cl = append(cl, "subject:failed-decode-receiver")
		} else {
			cl = append(cl, "subject:decoded-object")
		}
		// shape: query ... set ... query
		stage, nt := 0, failed
		for _, o := range cs.Ops {
			isQ := o.Kind == "q" || o.Kind == "snapshot" || o.Kind == "report"
			switch {
			case stage == 0 && isQ:
				stage = 1
			case stage == 1 && o.Kind == "set":
				stage = 2
			case stage == 2 && isQ:
				stage = 3
			}
		}
		if stage == 3 {
			nt = true
			cl = append(cl, "shape:query-set-query")
		}
		c.rec.Case("sequences", fmt.Sprintf("%+v", cs), nt, cl...)
		c.rec.AddExtraInt("total_steps", int64(len(cs.Ops)))
		if c.rec.SampleCount() < 5 && len(cs.Ops) < 8 {
			c.rec.Sample(cs)
		}
		evalCase(c, rt, "ops", cs, checkC15)
	})
}
