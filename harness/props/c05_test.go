package props

import (
	"fmt"
	"testing"

	m2 "github.com/goark/go-cvss/v2/metric"
	"pgregory.net/rapid"
	"verif/harness/bind"
	"verif/harness/gen"
	"verif/harness/spec"
)

// C05 — v2 environmental score = FIRST v2 environmental equations.

// fieldCase2 is a v2 environmental object obtained by decoding a vector of the right
// shape (which fixes the groups that are present) and assigning the exported fields.
type fieldCase2 struct {
	B      [6]int `json:"base"` // AV AC Au C I A
	HasT   bool   `json:"has_temporal"`
	T      [3]int `json:"temporal"` // E RL RC
	HasE   bool   `json:"has_environmental"`
	E      [5]int `json:"environmental"` // CDP TD CR IR AR
	Vector string `json:"vector,omitempty"`
}

func (f fieldCase2) withText() fieldCase2 {
	f.Vector = gen.V2FromIdx(f.B, f.HasT, f.T, f.HasE, f.E).String()
	return f
}

func inRange2(f fieldCase2) bool {
	for _, v := range f.B {
		if v < 0 || v > 2 {
			return false
		}
	}
	for i, m := range spec.V2T() {
		if f.T[i] < 0 || f.T[i] >= len(m.Codes) {
			return false
		}
	}
	for i, m := range spec.V2E() {
		if f.E[i] < 0 || f.E[i] >= len(m.Codes) {
			return false
		}
	}
	return true
}

// shape2 decodes a template vector with the wanted groups present.
func shape2(hasT, hasE bool) (*m2.Environmental, error) {
	v := gen.V2FromIdx([6]int{}, hasT, [3]int{}, hasE, [5]int{})
	return m2.NewEnvironmental().Decode(v.String())
}

func build2(f fieldCase2) (*m2.Environmental, error) {
	e, err := shape2(f.HasT, f.HasE)
	if err != nil {
		return nil, err
	}
	bind.SetV2Base(e.Base, f.B)
	if f.HasT {
		bind.SetV2Temporal(e.Temporal, f.T)
	}
	if f.HasE {
		bind.SetV2Env(e, f.E)
	}
	return e, nil
}

// c05Verdict compares an observed environmental score with the model.
func c05Verdict(f fieldCase2, score float64) string {
	k, grid := tenths(score)
	if !grid {
		return fmt.Sprintf("environmental score %v is not a multiple of 0.1", fmtScore(score))
	}
	if !f.HasE {
		adm := spec.V2Temporal(f.B, f.HasT, f.T)
		if adm.Has(k) {
			return ""
		}
		if lib, ok := kfLookup("KF-1", v2BaseKey(f.B)); ok {
			alt := spec.TSet{}.With(lib)
			if f.HasT {
				alt = spec.V2TemporalOf(lib, f.T)
			}
			if alt.Has(k) {
				return known("KF-1", fmt.Sprintf("%s: library base %.1f, specification %s (environmental group absent)", v2BaseKey(f.B), float64(lib)/10, fmtSet(spec.V2Base(f.B))))
			}
		}
		return fmt.Sprintf("environmental group absent: score %v, temporal equation admits %s", fmtScore(score), fmtSet(adm))
	}
	adm, _ := spec.V2Env(f.B, f.HasT, f.T, f.HasE, f.E)
	if adm.Has(k) {
		return ""
	}
	adj, neg, _ := spec.V2AdjustedBase(f.B, f.E[2], f.E[3], f.E[4])
	key := v2ReqKey(f.B, f.E[2], f.E[3], f.E[4])
	if lib, ok := kfLookup("KF-2", key); ok {
		if spec.V2EnvFromAdjusted(spec.TSet{}.With(lib), f.HasT, f.T, f.E[0], f.E[1]).Has(k) {
			return known("KF-2", fmt.Sprintf("%s: library adjusted base %.1f, specification %s", key, float64(lib)/10, fmtSet(adj)))
		}
	}
	return fmt.Sprintf("environmental score %v, FIRST v2 environmental equations admit %s (adjusted base %s, negative equation: %v)", fmtScore(score), fmtSet(adm), fmtSet(adj), neg)
}

var checkC05Fields = register("C05/fields", func(f fieldCase2) string {
	if !inRange2(f) {
		return ""
	}
	e, err := build2(f)
	if err != nil {
		return fmt.Sprintf("shape template rejected: %v", err)
	}
	return c05Verdict(f, e.Score())
})

// reusedCase2: one object (decoded shape template) takes the fields of Prev, is scored, then
// takes the fields of Cur and is scored again — the second score must be Cur's.
type reusedCase2 struct {
	Prev fieldCase2 `json:"first_assignment"`
	Cur  fieldCase2 `json:"second_assignment"`
}

var checkC05Reused = register("C05/fields-reused", func(r reusedCase2) string {
	if !inRange2(r.Prev) || !inRange2(r.Cur) || r.Prev.HasT != r.Cur.HasT || r.Prev.HasE != r.Cur.HasE {
		return ""
	}
	e, err := build2(r.Prev)
	if err != nil {
		return fmt.Sprintf("shape template rejected: %v", err)
	}
	e.Score()
	e.Severity()
	bind.SetV2Base(e.Base, r.Cur.B)
	if r.Cur.HasT {
		bind.SetV2Temporal(e.Temporal, r.Cur.T)
	}
	if r.Cur.HasE {
		bind.SetV2Env(e, r.Cur.E)
	}
	if m := c05Verdict(r.Cur, e.Score()); m != "" {
		if _, _, known := splitKnown(m); known {
			return m
		}
		return "after the same object was scored with other field values: " + m
	}
	return ""
})

// assignedCase2: the vector of Decoded (all three groups present) goes through the
// environmental decoder, is optionally scored, then every field is assigned Cur's value; the
// score must be Cur's. What Decode noted about the values it read must not matter any more.
type assignedCase2 struct {
	Decoded     fieldCase2 `json:"decoded_vector"`
	ScoredFirst bool       `json:"scored_before_assignment"`
	Cur         fieldCase2 `json:"assigned"`
}

var checkC05Assigned = register("C05/decoded-then-assigned", func(r assignedCase2) string {
	if !inRange2(r.Decoded) || !inRange2(r.Cur) || !r.Decoded.HasT || !r.Decoded.HasE || !r.Cur.HasT || !r.Cur.HasE {
		return ""
	}
	vec := gen.V2FromIdx(r.Decoded.B, true, r.Decoded.T, true, r.Decoded.E).String()
	e, err := m2.NewEnvironmental().Decode(vec)
	if err != nil {
		return fmt.Sprintf("canonical vector %q rejected: %v", vec, err)
	}
	if r.ScoredFirst {
		e.Score()
		e.Severity()
	}
	bind.SetV2Base(e.Base, r.Cur.B)
	bind.SetV2Temporal(e.Temporal, r.Cur.T)
	bind.SetV2Env(e, r.Cur.E)
	if m := c05Verdict(r.Cur, e.Score()); m != "" {
		if _, _, known := splitKnown(m); known {
			return m
		}
		return fmt.Sprintf("decoded %q, then fields assigned: %s", vec, m)
	}
	return ""
})

var checkC05Decode = register("C05/decode", func(c scoreCase2) string {
	ref, ok := spec.AcceptV2(c.Input, spec.Environmental)
	if !ok {
		return ""
	}
	o, err := decodeCase2(spec.Environmental, c)
	if err != nil || o.isNil() {
		return fmt.Sprintf("canonical v2 vector rejected by the environmental decoder: %v", err)
	}
	var f fieldCase2
	f.B, f.HasT, f.T, f.HasE, f.E = spec.IdxV2(ref)
	return c05Verdict(f, o.E.Score())
})

func c05NonTrivial(f fieldCase2) bool {
	if !f.HasE {
		return false
	}
	req := func(i int) bool { return f.E[i] == 0 || f.E[i] == 2 } // L or H (M and ND weigh 1.0)
	return req(2) || req(3) || req(4) || (f.E[0] != 0 && f.E[0] != 5) || (f.E[1] != 3 && f.E[1] != 4)
}

// c05Sweep enumerates (CR,IR,AR) x (CDP,TD) for one base vector and temporal setting on
// a prepared object and compares with precomputed admissible sets.
// c05Mismatch decides a fast-path mismatch: the fresh-object checker first; if a fresh object
// is right, the reused object was wrong because of what it was asked before.
func c05Mismatch(c *ctx, prev, cur fieldCase2, nviol *int) bool {
	before := *nviol
	known := c.rec.F.KnownHits["KF-1"] + c.rec.F.KnownHits["KF-2"]
	if !evalEnum(c, "fields", cur.withText(), checkC05Fields, nviol) {
		return false
	}
	if *nviol == before && c.rec.F.KnownHits["KF-1"]+c.rec.F.KnownHits["KF-2"] == known {
		// neither a violation nor a known finding on a fresh object
		return evalEnum(c, "fields-reused", reusedCase2{Prev: prev.withText(), Cur: cur.withText()}, checkC05Reused, nviol)
	}
	return true
}

func c05Sweep(c *ctx, e *m2.Environmental, b [6]int, hasT bool, t [3]int, cl map[string]int64, nviol *int) (evals, nt int64, ok bool) {
	prev := fieldCase2{B: b, HasT: hasT, T: t, HasE: true}
	bind.SetV2Base(e.Base, b)
	if hasT {
		bind.SetV2Temporal(e.Temporal, t)
	}
	for cr := 0; cr < 4; cr++ {
		for ir := 0; ir < 4; ir++ {
			for ar := 0; ar < 4; ar++ {
				adj, neg, capb := spec.V2AdjustedBase(b, cr, ir, ar)
				if neg {
					cl["negative-adjusted-base-equation"] += 30
				}
				if capb {
					cl["min(10,.)-cap-binds"] += 30
				}
				if cr == 2 || ir == 2 || ar == 2 {
					cl["requirement-H(1.51)"] += 30
				}
				for cdp := 0; cdp < 6; cdp++ {
					for td := 0; td < 5; td++ {
						f := fieldCase2{B: b, HasT: hasT, T: t, HasE: true, E: [5]int{cdp, td, cr, ir, ar}}
						bind.SetV2Env(e, f.E)
						score := e.Score()
						evals++
						if c05NonTrivial(f) {
							nt++
						}
						k, grid := tenths(score)
						adm := spec.V2EnvFromAdjusted(adj, hasT, t, cdp, td)
						if !grid || !adm.Has(k) {
							// slow path decides (known finding or violation) and produces the replay case
							if !c05Mismatch(c, prev, f, nviol) {
								return evals, nt, false
							}
						}
						prev = f
					}
				}
			}
		}
	}
	return evals, nt, true
}

func TestC05(t *testing.T) {
	c := begin(t, "C05")
	defer c.end()
	c.rec.F.Rule = "field sweep: objects decoded once per group shape, then every exported field stepped through all values — quick: all 729 base x 64 (CR,IR,AR) x 30 (CDP,TD) with the temporal group absent (1,399,680) plus the 73,629 vectors without environmental group and 4,000,000 distinct seeded points of the product with both groups present; thorough: the complete 729 x 101 x 1,921 product (141,441,309 objects). decode: canonical vectors chosen by a seeded pseudo-random bijection of the 729 x 101 x 1,921 index space (distinct by construction), parsed by the environmental decoder. decoded-then-assigned: 54 vectors of special shape (every optional metric ND except one, all ND, two ordinary) decoded, optionally scored, then completely re-assigned (24 hash-chosen assignments each) or changed in exactly one field (every field, every other value). Non-trivial = environmental group present with a requirement L/H, or CDP not in {N,ND}, or TD not in {H,ND}."
	c.rec.F.Assumptions = []string{"reference model: exact rational AdjustedImpact with min(10,.), base equation with f() on the adjusted impact, round-to-1-decimal sets through the temporal and environmental equations; a negative equation value also admits 0 (and its clamped propagation)", "known findings KF-1 / KF-2 (known_findings.json): a deviation is excused only on a listed (base | CR/IR/AR) input and only if the library value equals the exact propagation of the listed wrong tenth", "field assignment on a decoded object is equivalent to decoding the corresponding vector (checked by the decode stage on a sample and by C09)"}

	nviol := 0
	cl := map[string]int64{}
	var evals, nt int64
	eNoT, err := shape2(false, true)
	eT, err2 := shape2(true, true)
	if err != nil || err2 != nil {
		c.violation("fields", fieldCase2{HasE: true}.withText(), fmt.Sprintf("shape template rejected: %v %v", err, err2))
		return
	}
	// ---- environmental group absent: equals the temporal score -------------------------
	forEachV2BaseTemporal(func(i int, b [6]int, hasT bool, tt [3]int) {
		if nviol > 0 || !mine(i) {
			return
		}
		f := fieldCase2{B: b, HasT: hasT, T: tt}.withText()
		evals++
		cl["environmental-group-absent"]++
		evalEnum(c, "decode", scoreCase2{Level: 2, NilRecv: i%2 == 0, PreQuery: i%4 == 1, Input: f.Vector}, checkC05Decode, &nviol)
	})
	// ---- field sweeps ------------------------------------------------------------------
	ok := true
	for bi := 0; bi < 729 && ok && nviol == 0; bi++ {
		b := spec.V2BaseFromIndex(bi)
		if thorough() {
			// all 101 temporal settings; work split by (base, temporal) index
			j := 0
			for hasT := 0; hasT < 2 && ok; hasT++ {
				for ti := 0; ti < 100 && ok; ti++ {
					if hasT == 0 && ti > 0 {
						break
					}
					j++
					if !mine(bi*101 + j) {
						continue
					}
					tt := [3]int{ti / 20, (ti / 4) % 5, ti % 4}
					obj := eNoT
					if hasT == 1 {
						obj = eT
					}
					var e2, n2 int64
					e2, n2, ok = c05Sweep(c, obj, b, hasT == 1, tt, cl, &nviol)
					evals += e2
					nt += n2
				}
			}
		} else {
			if !mine(bi) {
				continue
			}
			var e2, n2 int64
			e2, n2, ok = c05Sweep(c, eNoT, b, false, [3]int{}, cl, &nviol)
			evals += e2
			nt += n2
		}
	}
	// ---- quick tier: a seeded pseudo-random sample of the *full* product by field assignment (the
	// thorough tier enumerates it completely above)
	if !thorough() && ok && nviol == 0 {
		const space = 729 * 100 * 1920 // temporal group present x environmental group present
		key := mix(uint64(seed), 0xc05f)
		total := uint64(4000000)
		prev := fieldCase2{HasT: true, HasE: true}
		for k := uint64(shard); k < total && nviol == 0; k += uint64(shards) {
			n := permIndex(k, space, key)
			ei := int(n % 1920)
			n /= 1920
			ti := int(n % 100)
			n /= 100
			f := fieldCase2{B: spec.V2BaseFromIndex(int(n)), HasT: true, T: [3]int{ti / 20, (ti / 4) % 5, ti % 4}, HasE: true, E: [5]int{ei / 320, (ei / 64) % 5, (ei / 16) % 4, (ei / 4) % 4, ei % 4}}
			bind.SetV2Base(eT.Base, f.B)
			bind.SetV2Temporal(eT.Temporal, f.T)
			bind.SetV2Env(eT, f.E)
			score := eT.Score()
			evals++
			if c05NonTrivial(f) {
				nt++
			}
			cl["field-sample(temporal+environmental present)"]++
			kk, grid := tenths(score)
			adj, _, _ := spec.V2AdjustedBase(f.B, f.E[2], f.E[3], f.E[4])
			if !grid || !spec.V2EnvFromAdjusted(adj, true, f.T, f.E[0], f.E[1]).Has(kk) {
				c05Mismatch(c, prev, f, &nviol)
			}
			prev = f
		}
	}
	c.rec.Bulk("field-sweep", evals, nt, cl)
	if shard == 0 {
		if thorough() {
			c.rec.F.Exhaustive = append(c.rec.F.Exhaustive, "base x (temporal + absent) x (environmental + absent) (141,441,309 objects)")
		} else {
			c.rec.F.Exhaustive = append(c.rec.F.Exhaustive, "base x environmental group with the temporal group absent (1,399,680 objects); base x temporal with the environmental group absent (73,629 vectors)")
		}
	}

	// ---- decode stage: seeded pseudo-random sample of the full product, through Decode -----------
	{
		const space = 729 * 101 * 1921
		total := uint64(pick(800000, 4000000))
		key := mix(uint64(seed), 0xc05)
		var ev2, nt2 int64
		cl2 := map[string]int64{}
		for k := uint64(shard); k < total && nviol == 0; k += uint64(shards) {
			n := permIndex(k, space, key)
			var f fieldCase2
			ei := int(n % 1921)
			n /= 1921
			ti := int(n % 101)
			n /= 101
			f.B = spec.V2BaseFromIndex(int(n))
			if ti > 0 {
				f.HasT = true
				ti--
				f.T = [3]int{ti / 20, (ti / 4) % 5, ti % 4}
			}
			if ei > 0 {
				f.HasE = true
				ei--
				f.E = [5]int{ei / 320, (ei / 64) % 5, (ei / 16) % 4, (ei / 4) % 4, ei % 4}
			}
			f = f.withText()
			cs := scoreCase2{Level: 2, NilRecv: k%2 == 0, PreQuery: k%4 == 1, Input: f.Vector}
			ev2++
			if c05NonTrivial(f) {
				nt2++
			}
			if f.HasT {
				cl2["decode:temporal-group-present"]++
			}
			if f.HasE {
				e5 := spec.V2E()
				cl2["CDP:"+e5[0].Codes[f.E[0]]]++
				cl2["TD:"+e5[1].Codes[f.E[1]]]++
			}
			if c.rec.SampleCount() < 8 && k%4099 < uint64(shards) {
				c.rec.Sample(cs)
			}
			evalEnum(c, "decode", cs, checkC05Decode, &nviol)
		}
		c.rec.Bulk("decode-sample", ev2, nt2, cl2)
	}

	// ---- two-field transitions on one decoded object (all three groups present) --------------
	// every pair of the 14 fields, every pair of start values and of end values, two contexts:
	// assign, score, re-assign exactly those two fields, score again (see C03 layer 5).
	{
		var evals int64
		nviol := 0
		var dims []int
		for _, m := range spec.V2Metrics {
			dims = append(dims, len(m.Codes))
		}
		get := func(f *fieldCase2, i int) *int {
			switch {
			case i < 6:
				return &f.B[i]
			case i < 9:
				return &f.T[i-6]
			}
			return &f.E[i-9]
		}
		contexts := []fieldCase2{
			{B: [6]int{2, 2, 2, 2, 2, 2}, HasT: true, T: [3]int{3, 3, 2}, HasE: true, E: [5]int{4, 3, 2, 2, 2}},
			{B: [6]int{0, 0, 1, 1, 0, 1}, HasT: true, T: [3]int{1, 1, 1}, HasE: true, E: [5]int{2, 1, 0, 1, 3}},
		}
		k := 0
		for _, ctx0 := range contexts {
			for i := 0; i < len(dims) && nviol == 0; i++ {
				for j := i + 1; j < len(dims) && nviol == 0; j++ {
					k++
					if !mine(k) {
						continue
					}
					for a1 := 0; a1 < dims[i]; a1++ {
						for a2 := 0; a2 < dims[j]; a2++ {
							prev := ctx0
							*get(&prev, i), *get(&prev, j) = a1, a2
							for b1 := 0; b1 < dims[i]; b1++ {
								for b2 := 0; b2 < dims[j]; b2++ {
									if (a1 == b1 && a2 == b2) || nviol > 0 {
										continue
									}
									cur := prev
									*get(&cur, i), *get(&cur, j) = b1, b2
									evals++
									evalEnum(c, "fields-reused", reusedCase2{Prev: prev.withText(), Cur: cur.withText()}, checkC05Reused, &nviol)
								}
							}
						}
					}
				}
			}
		}
		c.rec.Bulk("two-field-transitions", evals, evals, map[string]int64{"two-field-transition": evals})
	}

	// ---- decoded vectors of special shape, then assignment -------------------------------------
	// templates: every optional metric at ND except one (each metric, each value), all ND, and
	// three ordinary ones; 24 hash-chosen complete assignments on each
	{
		var evals int64
		nviol := 0
		optM := append(append([]*spec.Metric(nil), spec.V2T()...), spec.V2E()...)
		nd := func(m *spec.Metric) int { return m.Index("ND") }
		var templates []fieldCase2
		allND := fieldCase2{B: [6]int{2, 0, 2, 1, 1, 2}, HasT: true, HasE: true}
		for i, m := range spec.V2T() {
			allND.T[i] = nd(m)
		}
		for i, m := range spec.V2E() {
			allND.E[i] = nd(m)
		}
		templates = append(templates, allND)
		for oi, m := range optM {
			for vi := range m.Codes {
				t := allND
				if oi < 3 {
					t.T[oi] = vi
				} else {
					t.E[oi-3] = vi
				}
				templates = append(templates, t)
			}
		}
		templates = append(templates, fieldCase2{B: [6]int{0, 1, 0, 2, 2, 2}, HasT: true, T: [3]int{1, 1, 1}, HasE: true, E: [5]int{2, 1, 0, 1, 3}}, fieldCase2{B: [6]int{2, 2, 2, 0, 1, 0}, HasT: true, T: [3]int{3, 3, 2}, HasE: true, E: [5]int{4, 3, 2, 2, 2}})
		k := 0
		for ti, tpl := range templates {
			for a := 0; a < 24 && nviol == 0; a++ {
				k++
				if !mine(k) {
					continue
				}
				h := mix(uint64(seed)+uint64(ti)*977, uint64(a))
				cur := fieldCase2{HasT: true, HasE: true}
				for i := range cur.B {
					cur.B[i] = int(h >> (4 * uint(i)) % 3)
				}
				for i, m := range spec.V2T() {
					cur.T[i] = int(h >> (24 + 4*uint(i)) % uint64(len(m.Codes)))
				}
				for i, m := range spec.V2E() {
					cur.E[i] = int(h >> (36 + 4*uint(i)) % uint64(len(m.Codes)))
				}
				evals++
				evalEnum(c, "decoded-then-assigned", assignedCase2{Decoded: tpl.withText(), ScoredFirst: a%2 == 0, Cur: cur.withText()}, checkC05Assigned, &nviol)
			}
		}
		// the commonest real use: decode, change exactly one field (every field, every other
		// value), score — what Decode resolved and kept must not survive the assignment
		var single int64
		bdims := [6]int{3, 3, 3, 3, 3, 3}
		for _, tpl := range templates {
			try := func(cur fieldCase2) {
				k++
				if nviol > 0 || !mine(k) {
					return
				}
				single++
				evalEnum(c, "decoded-then-assigned", assignedCase2{Decoded: tpl.withText(), ScoredFirst: k%3 == 0, Cur: cur.withText()}, checkC05Assigned, &nviol)
			}
			for i := range tpl.B {
				for v := 0; v < bdims[i]; v++ {
					if v != tpl.B[i] {
						cur := tpl
						cur.B[i] = v
						try(cur)
					}
				}
			}
			for i, m := range spec.V2T() {
				for v := range m.Codes {
					if v != tpl.T[i] {
						cur := tpl
						cur.T[i] = v
						try(cur)
					}
				}
			}
			for i, m := range spec.V2E() {
				for v := range m.Codes {
					if v != tpl.E[i] {
						cur := tpl
						cur.E[i] = v
						try(cur)
					}
				}
			}
		}
		evals += single
		c.rec.Bulk("decoded-then-assigned", evals, evals, map[string]int64{"decoded-special-shape-then-assigned": evals - single, "decoded-then-one-field-assigned": single})
	}

	// ---- rapid: random vectors (shrinkable) ------------------------------------------------
	c.rapidStage("rapid", pick(16000, 200000), func(rt *rapid.T) {
		vec := gen.ValidV2(spec.Environmental).Draw(rt, "vector")
		cs := scoreCase2{Level: 2, NilRecv: rapid.Bool().Draw(rt, "nilrecv"), PreQuery: rapid.IntRange(0, 3).Draw(rt, "prequery") == 0, Input: vec.String()}
		var f fieldCase2
		f.B, f.HasT, f.T, f.HasE, f.E = spec.IdxV2(vec)
		c.rec.Case("rapid", cs.Input, c05NonTrivial(f))
		evalCase(c, rt, "decode", cs, checkC05Decode)
	})
}
