package props

import (
	"fmt"
	"strconv"
	"strings"
	"testing"

	m2 "github.com/goark/go-cvss/v2/metric"
	m3 "github.com/goark/go-cvss/v3/metric"
	"github.com/goark/go-cvss/v3/report"
	"verif/harness/bind"
	"verif/harness/spec"
)

// C06 — scores on the 0.0..10.0 tenth grid; severity = band of the same score.

func sev3(k int) m3.Severity {
	switch {
	case k == 0:
		return m3.SeverityNone
	case k <= 39:
		return m3.SeverityLow
	case k <= 69:
		return m3.SeverityMedium
	case k <= 89:
		return m3.SeverityHigh
	}
	return m3.SeverityCritical
}

func sev2(k int) m2.Severity {
	switch {
	case k <= 39:
		return m2.SeverityLow
	case k <= 69:
		return m2.SeverityMedium
	}
	return m2.SeverityHigh
}

func oneDecimal(score float64) bool {
	s := strconv.FormatFloat(score, 'f', -1, 64)
	if i := strings.IndexByte(s, '.'); i >= 0 && len(s)-i-1 > 1 {
		return false
	}
	return true
}

// grid3 checks one (score, severity) observation of a v3 level.
func grid3(level string, score float64, sev m3.Severity) string {
	k, grid := tenths(score)
	if !grid || k < 0 || k > 100 || !oneDecimal(score) {
		return fmt.Sprintf("%s score %v is not a multiple of 0.1 in [0,10] printing with one decimal", level, fmtScore(score))
	}
	if want := sev3(k); sev != want {
		return fmt.Sprintf("%s score %v has severity %v, its rating band is %v", level, fmtScore(score), sev, want)
	}
	return ""
}

var checkC06v3 = register("C06/v3fields", func(f fieldCase3) string {
	if !inRange3(f) {
		return ""
	}
	e := build3(f)
	if m := grid3("base", e.Base.Score(), e.Base.Severity()); m != "" {
		return m
	}
	if m := grid3("temporal", e.Temporal.Score(), e.Temporal.Severity()); m != "" {
		return m
	}
	if m := grid3("environmental", e.Score(), e.Severity()); m != "" {
		return m
	}
	// the report's score fields are the decimal rendering of the same scores
	rep := report.NewEnvironmental(e)
	for _, p := range []struct {
		name, got string
		score     float64
	}{{"BaseScore", rep.BaseScore, e.Base.Score()}, {"TemporalScore", rep.TemporalScore, e.Temporal.Score()}, {"EnvironmentalScore", rep.EnvironmentalScore, e.Score()}} {
		k, _ := tenths(p.score)
		want := strconv.Itoa(k / 10)
		if k%10 != 0 {
			want += "." + strconv.Itoa(k%10)
		}
		if p.got != want {
			return fmt.Sprintf("report field %s = %q, score is %s", p.name, p.got, want)
		}
	}
	return ""
})

// reassignCase3: one object holds Prev's fields and is queried at every level, then it is
// assigned Cur's fields; severity must still be the band of the score the object reports then.
type reassignCase3 struct {
	Prev fieldCase3 `json:"fields_before"`
	Cur  fieldCase3 `json:"fields_assigned"`
}

var checkC06v3Re = register("C06/v3reassigned", func(r reassignCase3) string {
	if !inRange3(r.Prev) || !inRange3(r.Cur) {
		return ""
	}
	e := build3(r.Prev)
	e.Base.Score()
	e.Base.Severity()
	e.Temporal.Score()
	e.Temporal.Severity()
	e.Score()
	e.Severity()
	bind.SetV3Base(e.Base, r.Cur.Ver, r.Cur.B)
	bind.SetV3Temporal(e.Temporal, r.Cur.T)
	bind.SetV3Env(e, r.Cur.E)
	for _, m := range []string{grid3("base", e.Base.Score(), e.Base.Severity()), grid3("temporal", e.Temporal.Score(), e.Temporal.Severity()), grid3("environmental", e.Score(), e.Severity())} {
		if m != "" {
			return "on an object queried before its fields were assigned: " + m
		}
	}
	return ""
})

func grid2(level string, score float64, sev m2.Severity, negOK spec.TSet) string {
	k, grid := tenths(score)
	if !grid || !oneDecimal(score) {
		return fmt.Sprintf("%s score %v is not a multiple of 0.1 printing with one decimal", level, fmtScore(score))
	}
	if k < 0 {
		if negOK.Has(k) {
			return "" // the specification's own equation is negative here: score and severity unspecified
		}
		return fmt.Sprintf("%s score %v is negative where the specification's equation is not", level, fmtScore(score))
	}
	if k > 100 {
		return fmt.Sprintf("%s score %v exceeds 10.0", level, fmtScore(score))
	}
	if want := sev2(k); sev != want {
		return fmt.Sprintf("%s score %v has severity %v, its rating band is %v", level, fmtScore(score), sev, want)
	}
	return ""
}

var checkC06v2 = register("C06/v2fields", func(f fieldCase2) string {
	if !inRange2(f) {
		return ""
	}
	e, err := build2(f)
	if err != nil {
		return fmt.Sprintf("shape template rejected: %v", err)
	}
	if m := grid2("base", e.Base.Score(), e.Base.Severity(), spec.TSet{}); m != "" {
		return m
	}
	if m := grid2("temporal", e.Temporal.Score(), e.Temporal.Severity(), spec.TSet{}); m != "" {
		return m
	}
	adm, _ := spec.V2Env(f.B, f.HasT, f.T, f.HasE, f.E)
	return grid2("environmental", e.Score(), e.Severity(), adm)
})

// reassignCase2: the v2 counterpart of reassignCase3 (Prev and Cur have the same group shape).
type reassignCase2 struct {
	Prev fieldCase2 `json:"fields_before"`
	Cur  fieldCase2 `json:"fields_assigned"`
}

var checkC06v2Re = register("C06/v2reassigned", func(r reassignCase2) string {
	if !inRange2(r.Prev) || !inRange2(r.Cur) || r.Prev.HasT != r.Cur.HasT || r.Prev.HasE != r.Cur.HasE {
		return ""
	}
	e, err := build2(r.Prev)
	if err != nil {
		return fmt.Sprintf("shape template rejected: %v", err)
	}
	e.Base.Score()
	e.Base.Severity()
	e.Temporal.Score()
	e.Temporal.Severity()
	e.Score()
	e.Severity()
	f := r.Cur
	bind.SetV2Base(e.Base, f.B)
	if f.HasT {
		bind.SetV2Temporal(e.Temporal, f.T)
	}
	if f.HasE {
		bind.SetV2Env(e, f.E)
	}
	adm, _ := spec.V2Env(f.B, f.HasT, f.T, f.HasE, f.E)
	for _, m := range []string{grid2("base", e.Base.Score(), e.Base.Severity(), spec.TSet{}), grid2("temporal", e.Temporal.Score(), e.Temporal.Severity(), spec.TSet{}), grid2("environmental", e.Score(), e.Severity(), adm)} {
		if m != "" {
			return "on an object queried before its fields were assigned: " + m
		}
	}
	return ""
})

// builtCase2: a v2 object made by a constructor with its exported fields assigned, never
// decoded (what the score then is — the groups count as absent — is C04/C05's business;
// here only grid and band of whatever is reported).
type builtCase2 struct {
	Level int    `json:"constructor_level"`
	B     [6]int `json:"base"`
	T     [3]int `json:"temporal"`
	E     [5]int `json:"environmental"`
}

var checkC06v2Built = register("C06/v2built", func(f builtCase2) string {
	if !inRange2(fieldCase2{B: f.B, T: f.T, E: f.E}) || f.Level < 0 || f.Level > 2 {
		return ""
	}
	var b *m2.Base
	var t *m2.Temporal
	var e *m2.Environmental
	switch f.Level {
	case 0:
		b = m2.NewBase()
	case 1:
		t = m2.NewTemporal()
		b = t.Base
	default:
		e = m2.NewEnvironmental()
		t, b = e.Temporal, e.Base
	}
	bind.SetV2Base(b, f.B)
	if t != nil {
		bind.SetV2Temporal(t, f.T)
	}
	if e != nil {
		bind.SetV2Env(e, f.E)
	}
	neg := spec.TSet{}
	if m := grid2("base (fields assigned, never decoded)", b.Score(), b.Severity(), neg); m != "" {
		return m
	}
	if t != nil {
		if m := grid2("temporal (fields assigned, never decoded)", t.Score(), t.Severity(), neg); m != "" {
			return m
		}
	}
	if e != nil {
		if s := e.Score(); s >= 0 {
			if m := grid2("environmental (fields assigned, never decoded)", s, e.Severity(), neg); m != "" {
				return m
			}
		}
	}
	return ""
})

// attained tracks which tenths were seen per (version, level).
type attained [6][128]bool

var edgeTenths = []int{0, 1, 39, 40, 69, 70, 89, 90, 100}

func isEdge(k int) bool {
	for _, e := range edgeTenths {
		if k == e {
			return true
		}
	}
	return false
}

func TestC06(t *testing.T) {
	c := begin(t, "C06")
	defer c.end()
	c.rec.F.Rule = "v3: objects built by field assignment — every version x base x temporal combination (518,400; base and temporal level) and the effective-metric environmental domain of C03 layer 1 (quick: 331,776 x 4 temporal settings; thorough: all 33,177,600) plus a seeded pseudo-random (bijective) sample of the version x base x environmental product (quick 2,000,000, thorough 20,000,000); v2: objects never decoded (constructor of each level plus field assignment, all 729 base combinations x 4 hash-chosen optional settings), base x temporal (73,629) and base x environmental sweep with the temporal group absent (quick, 1,399,680) or the complete 141 million product (thorough). At every level of every object: score == k/10 exactly for an integer 0<=k<=100 (one decimal digit when printed), Severity() == rating band of k by integer comparison; v3 report score fields on a 1/4096 subsample. The v3 and v2 sweeps re-use one object (assign, query all levels, assign, query ...); a mismatch there is re-examined on a fresh object and, if that does not reproduce it, as the two-step case 'previous fields held and queried, these fields assigned, queried'. Non-trivial = an observation whose score lies on a band edge (0.0, 0.1, 3.9, 4.0, 6.9, 7.0, 8.9, 9.0, 10.0); enumerated points are distinct by construction."
	c.rec.F.Assumptions = []string{"the v2 environmental exception is decided by the exact model of C05 (negative equation admits that negative tenth or 0)", "-0.0 is accepted as 0.0 (v2 returns it for zero-impact vectors)"}
	var att attained
	var evals, nt int64
	nviol := 0
	cl := map[string]int64{}
	obs3 := func(slot int, score float64, sev m3.Severity) bool {
		k, grid := tenths(score)
		evals++
		if !grid || k < 0 || k > 100 || sev != sev3(k) {
			return false
		}
		att[slot][k] = true
		if isEdge(k) {
			nt++
		}
		return true
	}
	// a mismatch seen on the re-used sweep object is re-examined on a fresh object and, if that
	// does not reproduce it, as "hold the previous fields, query, assign these, query"
	var prev3 fieldCase3
	recheck3 := func(f fieldCase3) {
		evalEnum(c, "v3fields", f.withText(), checkC06v3, &nviol)
		if nviol == 0 {
			evalEnum(c, "v3reassigned", reassignCase3{Prev: prev3.withText(), Cur: f.withText()}, checkC06v3Re, &nviol)
		}
	}
	// ---- v3 base x temporal ---------------------------------------------------------------
	e := m3.NewEnvironmental()
	forEachV3Base(func(i int, x spec.V3Idx) {
		if nviol > 0 || !mine(i) {
			return
		}
		bind.SetV3Base(e.Base, x.Ver, x.B)
		okAll := obs3(0, e.Base.Score(), e.Base.Severity())
		for te := 0; te < 5; te++ {
			for rl := 0; rl < 5; rl++ {
				for rc := 0; rc < 4; rc++ {
					bind.SetV3Temporal(e.Temporal, [3]int{te, rl, rc})
					okAll = obs3(1, e.Temporal.Score(), e.Temporal.Severity()) && okAll
					okAll = obs3(2, e.Score(), e.Severity()) && okAll
					cur := fieldCase3{Ver: x.Ver, B: x.B, T: [3]int{te, rl, rc}}
					if !okAll {
						recheck3(cur)
						okAll = true
					} else if (i*100+te*20+rl*4+rc)%4096 == 0 {
						evalEnum(c, "v3fields", cur.withText(), checkC06v3, &nviol)
					}
					prev3 = cur
				}
			}
		}
	})
	// ---- v3 environmental: effective domain ---------------------------------------------------
	{
		idx := 0
		for ver := 0; ver < 2 && nviol == 0; ver++ {
			for cr := 0; cr < 4; cr++ {
				for ir := 0; ir < 4; ir++ {
					for ar := 0; ar < 4; ar++ {
						idx++
						if !mine(idx) {
							continue
						}
						for mc := 1; mc < 4; mc++ {
							for mi := 1; mi < 4; mi++ {
								for ma := 1; ma < 4; ma++ {
									for ms := 1; ms < 3; ms++ {
										for mav := 1; mav < 5; mav++ {
											for mac := 1; mac < 3; mac++ {
												for mpr := 1; mpr < 4; mpr++ {
													for mui := 1; mui < 3; mui++ {
														f := fieldCase3{Ver: ver, B: [8]int{mav % 4, mac % 2, mpr % 3, mui % 2, ms % 2, mc % 3, mi % 3, ma % 3},
															E: [11]int{cr, ir, ar, mav, mac, mpr, mui, ms, mc, mi, ma}}
														bind.SetV3Base(e.Base, f.Ver, f.B)
														bind.SetV3Env(e, f.E)
														for ti := 0; ti < 100; ti++ {
															if !thorough() && ti%29 != 0 { // quick: 4 of the 100 temporal settings
																continue
															}
															f.T = [3]int{ti / 20, (ti / 4) % 5, ti % 4}
															bind.SetV3Temporal(e.Temporal, f.T)
															if !obs3(2, e.Score(), e.Severity()) {
																recheck3(f)
															}
															prev3 = f
														}
													}
												}
											}
										}
									}
								}
							}
						}
					}
				}
			}
		}
	}
	// ---- v3 environmental: sample of the full product ---------------------------------------
	{
		total := uint64(pick(8000000, 20000000))
		key := mix(uint64(seed), 0xc06)
		for k := uint64(shard); k < total && nviol == 0; k += uint64(shards) {
			n := permIndex(k, layer2Space, key)
			f := fromLayer2Index(n)
			h := mix(uint64(seed), n)
			f.T = [3]int{int(h % 5), int((h >> 8) % 5), int((h >> 16) % 4)}
			bind.SetV3Base(e.Base, f.Ver, f.B)
			bind.SetV3Temporal(e.Temporal, f.T)
			bind.SetV3Env(e, f.E)
			if !obs3(2, e.Score(), e.Severity()) {
				recheck3(f)
			} else if k%4096 < uint64(shards) {
				evalEnum(c, "v3fields", f.withText(), checkC06v3, &nviol)
			}
			prev3 = f
			if c.rec.SampleCount() < 3 && k%500009 < uint64(shards) {
				c.rec.Sample(f.withText())
			}
		}
	}
	// ---- v2 ----------------------------------------------------------------------------------
	obs2 := func(slot int, score float64, sev m2.Severity) bool {
		k, grid := tenths(score)
		evals++
		if !grid || k < 0 || k > 100 || sev != sev2(k) {
			return false
		}
		att[slot][k] = true
		if isEdge(k) {
			nt++
		}
		return true
	}
	eNoT, err1 := shape2(false, true)
	eT, err2 := shape2(true, true)
	tOnly, err3 := shape2(true, false)
	bOnly, err4 := shape2(false, false)
	if err1 != nil || err2 != nil || err3 != nil || err4 != nil {
		c.violation("v2fields", fieldCase2{}, "shape template rejected")
		return
	}
	prev2 := map[*m2.Environmental]fieldCase2{}
	recheck2 := func(o *m2.Environmental, f fieldCase2) {
		evalEnum(c, "v2fields", f.withText(), checkC06v2, &nviol)
		if p, seen := prev2[o]; seen && nviol == 0 {
			evalEnum(c, "v2reassigned", reassignCase2{Prev: p.withText(), Cur: f.withText()}, checkC06v2Re, &nviol)
		}
	}
	forEachV2BaseTemporal(func(i int, b [6]int, hasT bool, tt [3]int) {
		if nviol > 0 || !mine(i) {
			return
		}
		o := bOnly
		if hasT {
			o = tOnly
			bind.SetV2Temporal(o.Temporal, tt)
		}
		bind.SetV2Base(o.Base, b)
		ok := obs2(3, o.Base.Score(), o.Base.Severity())
		ok = obs2(4, o.Temporal.Score(), o.Temporal.Severity()) && ok
		ok = obs2(5, o.Score(), o.Severity()) && ok
		if !ok {
			recheck2(o, fieldCase2{B: b, HasT: hasT, T: tt})
		}
		prev2[o] = fieldCase2{B: b, HasT: hasT, T: tt}
	})
	// v2 objects that were never decoded: constructor plus field assignment at each level
	{
		k := 0
		for bi := 0; bi < 729 && nviol == 0; bi++ {
			b := [6]int{bi / 243, bi / 81 % 3, bi / 27 % 3, bi / 9 % 3, bi / 3 % 3, bi % 3}
			for lv := 0; lv < 3; lv++ {
				for v := 0; v < 4; v++ {
					k++
					if !mine(k) {
						continue
					}
					h := mix(uint64(seed), uint64(k))
					cs := builtCase2{Level: lv, B: b, T: [3]int{int(h % 5), int(h >> 8 % 5), int(h >> 16 % 4)}, E: [5]int{int(h >> 24 % 6), int(h >> 32 % 5), int(h >> 40 % 4), int(h >> 44 % 4), int(h >> 48 % 4)}}
					evals++
					evalEnum(c, "v2built", cs, checkC06v2Built, &nviol)
				}
			}
		}
	}
	sweep := func(o *m2.Environmental, b [6]int, hasT bool, tt [3]int) {
		bind.SetV2Base(o.Base, b)
		if hasT {
			bind.SetV2Temporal(o.Temporal, tt)
		}
		for ei := 0; ei < 1920 && nviol == 0; ei++ {
			f := fieldCase2{B: b, HasT: hasT, T: tt, HasE: true, E: [5]int{ei / 320, (ei / 64) % 5, (ei / 16) % 4, (ei / 4) % 4, ei % 4}}
			bind.SetV2Env(o, f.E)
			if !obs2(5, o.Score(), o.Severity()) {
				cl["v2-env-slow-path(negative or violation)"]++
				recheck2(o, f)
			}
			prev2[o] = f
			if c.rec.SampleCount() < 6 && ei == 777 && b[0] == 1 && b[3] == 2 {
				c.rec.Sample(f.withText())
			}
		}
	}
	for bi := 0; bi < 729 && nviol == 0; bi++ {
		b := spec.V2BaseFromIndex(bi)
		if thorough() {
			for j := 0; j < 101; j++ {
				if !mine(bi*101 + j) {
					continue
				}
				if j == 0 {
					sweep(eNoT, b, false, [3]int{})
				} else {
					ti := j - 1
					sweep(eT, b, true, [3]int{ti / 20, (ti / 4) % 5, ti % 4})
				}
			}
		} else if mine(bi) {
			sweep(eNoT, b, false, [3]int{})
		}
	}
	// ---- coverage report ----------------------------------------------------------------------
	names := []string{"v3-base", "v3-temporal", "v3-environmental", "v2-base", "v2-temporal", "v2-environmental"}
	for s, name := range names {
		n := 0
		for k := 0; k <= 100; k++ {
			if att[s][k] {
				n++
				// encoded as class counters so that shards merge by addition (>0 = attained)
				cl[fmt.Sprintf("attained:%s:%d.%d", name, k/10, k%10)]++
			}
		}
	}
	c.rec.Bulk("grid-and-band", evals, nt, cl)
	if shard == 0 {
		c.rec.F.Exhaustive = append(c.rec.F.Exhaustive, "v3 version x base x temporal (518,400)", "v2 base x (temporal + absent) (73,629)")
		if thorough() {
			c.rec.F.Exhaustive = append(c.rec.F.Exhaustive, "v3 effective environmental x temporal (33,177,600)", "v2 full product (141,441,309)")
		}
	}
}
