package props

import "testing"

// TestPermIndex: the sampling bijection really is one (self-test of the harness).
func TestPermIndex(t *testing.T) {
	for _, n := range []uint64{1, 2, 3, 5, 64, 100, 1000, 4097, 70000} {
		for _, key := range []uint64{0, 1, 0xdeadbeef} {
			seen := make([]bool, n)
			for k := uint64(0); k < n; k++ {
				x := permIndex(k, n, key)
				if x >= n || seen[x] {
					t.Fatalf("n=%d key=%d: k=%d -> %d (out of range or repeated)", n, key, k, x)
				}
				seen[x] = true
			}
		}
	}
}
