package props

import (
	"fmt"
	"math/big"
	"strconv"
	"strings"
	"testing"

	m2 "github.com/goark/go-cvss/v2/metric"
	m3 "github.com/goark/go-cvss/v3/metric"
	v3ver "github.com/goark/go-cvss/v3/version"
	"pgregory.net/rapid"
	"verif/harness/bind"
	"verif/harness/spec"
)

// C20 — value codes, enumeration values and weights form the specification's tables.

// wctx carries the arguments of the dependent weight functions (library constants).
type wctx struct {
	S  m3.Scope
	MS m3.ModifiedScope
	PR m3.PrivilegesRequired
	AV m3.AttackVector
	AC m3.AttackComplexity
	UI m3.UserInteraction
	C  m3.ConfidentialityImpact
	I  m3.IntegrityImpact
	A  m3.AvailabilityImpact
}

// mapi is the uniform view of one metric type's API.
type mapi struct {
	ver     int
	name    string
	get     func(string) int64
	str     func(int64) string
	valid   func(int64) bool         // the validity predicate, normalised to "true = defined value"
	defined func(int64) (bool, bool) // IsDefined where the type has it
	value   func(int64, wctx) (float64, bool)
}

func api[T ~int](ver int, name string, get func(string) T, str func(T) string, valid func(T) bool) *mapi {
	return &mapi{ver: ver, name: name,
		get:   func(s string) int64 { return int64(get(s)) },
		str:   func(v int64) string { return str(T(v)) },
		valid: func(v int64) bool { return valid(T(v)) }}
}

func (a *mapi) withValue(f func(int64, wctx) float64) *mapi {
	a.value = func(v int64, c wctx) (float64, bool) { return f(v, c), true }
	return a
}

func (a *mapi) withDefined(f func(int64) bool) *mapi {
	a.defined = func(v int64) (bool, bool) { return f(v), true }
	return a
}

// weightsBound is set by c20_weights_test.go (absent under the build tag noweights).
var weightsBound bool

var apis = []*mapi{
	// ---- v3 base: IsUnknown() is true for the unknown value
	api(3, "AV", m3.GetAttackVector, m3.AttackVector.String, func(v m3.AttackVector) bool { return !v.IsUnknown() }),
	api(3, "AC", m3.GetAttackComplexity, m3.AttackComplexity.String, func(v m3.AttackComplexity) bool { return !v.IsUnknown() }),
	api(3, "PR", m3.GetPrivilegesRequired, m3.PrivilegesRequired.String, func(v m3.PrivilegesRequired) bool { return !v.IsUnknown() }),
	api(3, "UI", m3.GetUserInteraction, m3.UserInteraction.String, func(v m3.UserInteraction) bool { return !v.IsUnknown() }),
	api(3, "S", m3.GetScope, m3.Scope.String, func(v m3.Scope) bool { return !v.IsUnknown() }),
	api(3, "C", m3.GetConfidentialityImpact, m3.ConfidentialityImpact.String, func(v m3.ConfidentialityImpact) bool { return !v.IsUnknown() }),
	api(3, "I", m3.GetIntegrityImpact, m3.IntegrityImpact.String, func(v m3.IntegrityImpact) bool { return !v.IsUnknown() }),
	api(3, "A", m3.GetAvailabilityImpact, m3.AvailabilityImpact.String, func(v m3.AvailabilityImpact) bool { return !v.IsUnknown() }),
	// ---- v3 temporal / environmental: IsValid()
	api(3, "E", m3.GetExploitability, m3.Exploitability.String, m3.Exploitability.IsValid),
	api(3, "RL", m3.GetRemediationLevel, m3.RemediationLevel.String, m3.RemediationLevel.IsValid),
	api(3, "RC", m3.GetReportConfidence, m3.ReportConfidence.String, m3.ReportConfidence.IsValid),
	api(3, "CR", m3.GetConfidentialityRequirement, m3.ConfidentialityRequirement.String, m3.ConfidentialityRequirement.IsValid),
	api(3, "IR", m3.GetIntegrityRequirement, m3.IntegrityRequirement.String, m3.IntegrityRequirement.IsValid),
	api(3, "AR", m3.GetAvailabilityRequirement, m3.AvailabilityRequirement.String, m3.AvailabilityRequirement.IsValid),
	api(3, "MAV", m3.GetModifiedAttackVector, m3.ModifiedAttackVector.String, m3.ModifiedAttackVector.IsValid),
	api(3, "MAC", m3.GetModifiedAttackComplexity, m3.ModifiedAttackComplexity.String, m3.ModifiedAttackComplexity.IsValid),
	api(3, "MPR", m3.GetModifiedPrivilegesRequired, m3.ModifiedPrivilegesRequired.String, m3.ModifiedPrivilegesRequired.IsValid),
	api(3, "MUI", m3.GetModifiedUserInteraction, m3.ModifiedUserInteraction.String, m3.ModifiedUserInteraction.IsValid),
	api(3, "MS", m3.GetModifiedScope, m3.ModifiedScope.String, m3.ModifiedScope.IsValid),
	api(3, "MC", m3.GetModifiedConfidentialityImpact, m3.ModifiedConfidentialityImpact.String, m3.ModifiedConfidentialityImpact.IsValid),
	api(3, "MI", m3.GetModifiedIntegrityImpact, m3.ModifiedIntegrityImpact.String, m3.ModifiedIntegrityImpact.IsValid),
	api(3, "MA", m3.GetModifiedAvailabilityImpact, m3.ModifiedAvailabilityImpact.String, m3.ModifiedAvailabilityImpact.IsValid),
	// ---- v2 base: IsUnknown() is *false* for the unknown value (negated naming); only
	// separation is required
	api(2, "AV", m2.GetAccessVector, m2.AccessVector.String, m2.AccessVector.IsUnknown),
	api(2, "AC", m2.GetAccessComplexity, m2.AccessComplexity.String, m2.AccessComplexity.IsUnknown),
	api(2, "Au", m2.GetAuthentication, m2.Authentication.String, m2.Authentication.IsUnknown),
	api(2, "C", m2.GetConfidentialityImpact, m2.ConfidentialityImpact.String, m2.ConfidentialityImpact.IsUnknown),
	api(2, "I", m2.GetIntegrityImpact, m2.IntegrityImpact.String, m2.IntegrityImpact.IsUnknown),
	api(2, "A", m2.GetAvailabilityImpact, m2.AvailabilityImpact.String, m2.AvailabilityImpact.IsUnknown),
	// ---- v2 temporal / environmental: IsValid(), IsDefined()
	api(2, "E", m2.GetExploitability, m2.Exploitability.String, m2.Exploitability.IsValid).withDefined(func(v int64) bool { return m2.Exploitability(v).IsDefined() }),
	api(2, "RL", m2.GetRemediationLevel, m2.RemediationLevel.String, m2.RemediationLevel.IsValid).withDefined(func(v int64) bool { return m2.RemediationLevel(v).IsDefined() }),
	api(2, "RC", m2.GetReportConfidence, m2.ReportConfidence.String, m2.ReportConfidence.IsValid).withDefined(func(v int64) bool { return m2.ReportConfidence(v).IsDefined() }),
	api(2, "CDP", m2.GetCollateralDamagePotential, m2.CollateralDamagePotential.String, m2.CollateralDamagePotential.IsValid).withDefined(func(v int64) bool { return m2.CollateralDamagePotential(v).IsDefined() }),
	api(2, "TD", m2.GetTargetDistribution, m2.TargetDistribution.String, m2.TargetDistribution.IsValid).withDefined(func(v int64) bool { return m2.TargetDistribution(v).IsDefined() }),
	api(2, "CR", m2.GetConfidentialityRequirement, m2.ConfidentialityRequirement.String, m2.ConfidentialityRequirement.IsValid).withDefined(func(v int64) bool { return m2.ConfidentialityRequirement(v).IsDefined() }),
	api(2, "IR", m2.GetIntegrityRequirement, m2.IntegrityRequirement.String, m2.IntegrityRequirement.IsValid).withDefined(func(v int64) bool { return m2.IntegrityRequirement(v).IsDefined() }),
	api(2, "AR", m2.GetAvailabilityRequirement, m2.AvailabilityRequirement.String, m2.AvailabilityRequirement.IsValid).withDefined(func(v int64) bool { return m2.AvailabilityRequirement(v).IsDefined() }),
}

func apiOf(ver int, name string) *mapi {
	for _, a := range apis {
		if a.ver == ver && a.name == name {
			return a
		}
	}
	return nil
}

func metricOf(ver int, name string) *spec.Metric {
	if ver == 2 {
		return spec.ByName(spec.V2Metrics, name)
	}
	return spec.ByName(spec.V3Metrics, name)
}

func constOf(ver int, name string, idx int) int64 {
	var v int64
	if ver == 2 {
		v, _ = bind.V2Value(name, idx)
	} else {
		v, _ = bind.V3Value(name, idx)
	}
	return v
}

func lit(s string) float64 {
	f, err := strconv.ParseFloat(s, 64)
	if err != nil {
		panic(err)
	}
	return f
}

// ---- case kinds ----------------------------------------------------------------------------

// tableCase: the complete table check of one metric (codes, constants, weights, predicates,
// out-of-range integers).
type tableCase struct {
	Ver    int    `json:"cvss_version"`
	Metric string `json:"metric"`
}

var checkC20Table = register("C20/table", func(c tableCase) string {
	a, m := apiOf(c.Ver, c.Metric), metricOf(c.Ver, c.Metric)
	if a == nil || m == nil {
		return ""
	}
	id := fmt.Sprintf("v%d %s", c.Ver, c.Metric)
	zeroValid := a.valid(0)
	if s := a.str(0); s != "" {
		return fmt.Sprintf("%s: the unknown/invalid value prints as %q, not as empty text", id, s)
	}
	seen := map[int64]string{}
	for i, code := range m.Codes {
		k := constOf(c.Ver, c.Metric, i)
		if other, dup := seen[k]; dup {
			return fmt.Sprintf("%s: codes %s and %s are bound to the same constant", id, other, code)
		}
		seen[k] = code
		for rep := 0; rep < 8; rep++ { // parsers iterate over maps: repeat to expose ambiguity
			if got := a.get(code); got != k {
				return fmt.Sprintf("%s: parsing code %q gives %d, the constant of that name is %d", id, code, got, k)
			}
		}
		if s := a.str(k); s != code {
			return fmt.Sprintf("%s: constant %d (code %s) prints as %q", id, k, code, s)
		}
		if a.valid(k) == zeroValid {
			return fmt.Sprintf("%s: the validity predicate does not distinguish the unknown/invalid value from defined value %s", id, code)
		}
		if a.defined != nil {
			d, _ := a.defined(k)
			if want := code != "ND"; d != want {
				return fmt.Sprintf("%s: IsDefined(%s) = %v", id, code, d)
			}
		}
	}
	if a.defined != nil {
		if d, _ := a.defined(0); d {
			return fmt.Sprintf("%s: IsDefined(invalid) is true", id)
		}
	}
	// weights
	if a.value != nil {
		if msg := checkWeights(c.Ver, a, m, id); msg != "" {
			return msg
		}
	}
	// out-of-range integers: no panic (enforced by the caller's guard), print empty, and —
	// being no table entry — carry no weight of their own: they must be treated exactly like
	// the metric's unknown/invalid value (same weight in every context, never "defined").
	// Besides the neighbourhood of the range, integers that alias a defined value under
	// truncation to 8, 16 or 32 bits are tried.
	var probes []int64
	for v := int64(-8); v <= int64(len(m.Codes))+8; v++ {
		probes = append(probes, v)
	}
	for k := int64(0); k <= int64(len(m.Codes))+1; k++ {
		for _, sh := range []uint{8, 16, 32} {
			probes = append(probes, k+1<<sh, k+2<<sh, k-(1<<sh), k|1<<(sh-1))
		}
		// ... and integers that carry a small second number above the value, at every shift
		// (a packed key of two enumeration values collides with exactly these)
		for sh := uint(2); sh <= 40; sh++ {
			for h := int64(1); h <= 4; h++ {
				probes = append(probes, k+h<<sh)
			}
		}
	}
	ctxs := []wctx{{}, {S: m3.ScopeChanged, MS: m3.ModifiedScopeChanged, PR: m3.PrivilegesRequiredHigh, AV: m3.AttackVectorLocal, AC: m3.AttackComplexityHigh, UI: m3.UserInteractionRequired, C: m3.ConfidentialityImpactLow, I: m3.IntegrityImpactLow, A: m3.AvailabilityImpactLow},
		{S: m3.ScopeUnchanged, MS: m3.ModifiedScopeNotDefined, PR: m3.PrivilegesRequiredLow}, {S: m3.ScopeChanged, MS: m3.ModifiedScopeUnchanged, PR: m3.PrivilegesRequiredLow}}
	for _, v := range probes {
		if _, defined := seen[v]; defined {
			continue
		}
		if s := a.str(v); s != "" {
			return fmt.Sprintf("%s: out-of-range value %d prints as %q", id, v, s)
		}
		_ = a.valid(v)
		if a.value != nil {
			for _, ctx := range ctxs {
				got, _ := a.value(v, ctx)
				unk, _ := a.value(0, ctx)
				if got != unk {
					return fmt.Sprintf("%s: out-of-range value %d has weight %v, the unknown/invalid value has %v in the same context (%+v)", id, v, got, unk, ctx)
				}
			}
		}
		if a.defined != nil {
			if d, _ := a.defined(v); d && v != 0 {
				// (v2 IsDefined is 'valid and not ND'; for garbage integers only no-panic is required)
				_ = d
			}
		}
	}
	// a defined value under an out-of-range *context* (scope / base metric) must not pick up
	// a weight either: PR under an undefined scope, Modified X over an undefined base value
	if c.Ver == 3 && a.value != nil && (m.Name == "PR" || m.BaseOf != "") {
		for i := range m.Codes {
			k := constOf(3, m.Name, i)
			for _, junk := range []int64{0, 7, 65537, 65538, 1<<32 + 1, -1} {
				ctx := wctx{S: m3.Scope(junk), MS: m3.ModifiedScope(junk), PR: m3.PrivilegesRequired(junk), AV: m3.AttackVector(junk), AC: m3.AttackComplexity(junk), UI: m3.UserInteraction(junk), C: m3.ConfidentialityImpact(junk), I: m3.IntegrityImpact(junk), A: m3.AvailabilityImpact(junk)}
				got, _ := a.value(k, ctx)
				ref0, _ := a.value(k, wctx{})
				if m.Name == "PR" || i == 0 { // weight depends on the context only for PR and for Modified X
					if got != ref0 {
						return fmt.Sprintf("%s: code %s under the out-of-range context value %d has weight %v, under the unknown context %v", id, m.Codes[i], junk, got, ref0)
					}
				}
			}
		}
	}
	return ""
})

func checkWeights(ver int, a *mapi, m *spec.Metric, id string) string {
	eq := func(what string, got float64, want string) string {
		if got != lit(want) {
			return fmt.Sprintf("%s: weight of %s is %v, the specification's table says %s", id, what, got, want)
		}
		return ""
	}
	if ver == 2 || (m.BaseOf == "" && m.WeightsChanged == nil) {
		for i, code := range m.Codes {
			got, _ := a.value(constOf(ver, m.Name, i), wctx{})
			if msg := eq(code, got, m.Weights[i]); msg != "" {
				return msg
			}
		}
		return ""
	}
	if m.Name == "PR" {
		for si, s := range bind.V3S {
			for i, code := range m.Codes {
				w := m.Weights[i]
				if si == 1 {
					w = m.WeightsChanged[i]
				}
				got, _ := a.value(constOf(3, "PR", i), wctx{S: s})
				if msg := eq(fmt.Sprintf("%s under scope %s", code, spec.ByName(spec.V3Metrics, "S").Codes[si]), got, w); msg != "" {
					return msg
				}
			}
		}
		return ""
	}
	if m.Name == "MPR" {
		pr := spec.ByName(spec.V3Metrics, "PR")
		for msi := 0; msi < 3; msi++ {
			for si := 0; si < 2; si++ {
				eff := si
				if msi != 0 {
					eff = msi - 1
				}
				for i, code := range m.Codes {
					for pi := 0; pi < 3; pi++ {
						k := pi
						if i != 0 {
							k = i - 1
						}
						w := pr.Weights[k]
						if eff == 1 {
							w = pr.WeightsChanged[k]
						}
						got, _ := a.value(constOf(3, "MPR", i), wctx{MS: bind.V3MS[msi], S: bind.V3S[si], PR: bind.V3PR[pi]})
						if msg := eq(fmt.Sprintf("MPR:%s with MS:%s S:%s PR:%s", code, spec.ByName(spec.V3Metrics, "MS").Codes[msi], spec.ByName(spec.V3Metrics, "S").Codes[si], pr.Codes[pi]), got, w); msg != "" {
							return msg
						}
					}
				}
			}
		}
		return ""
	}
	// other Modified metrics: own weight when defined, the base metric's weight at X
	bm := spec.ByName(spec.V3Metrics, m.BaseOf)
	for i, code := range m.Codes {
		for bi := range bm.Codes {
			ctx := wctx{}
			switch m.BaseOf {
			case "AV":
				ctx.AV = bind.V3AV[bi]
			case "AC":
				ctx.AC = bind.V3AC[bi]
			case "UI":
				ctx.UI = bind.V3UI[bi]
			case "C":
				ctx.C = bind.V3C[bi]
			case "I":
				ctx.I = bind.V3I[bi]
			case "A":
				ctx.A = bind.V3A[bi]
			}
			w := m.Weights[i]
			if i == 0 {
				w = bm.Weights[bi]
			}
			got, _ := a.value(constOf(3, m.Name, i), ctx)
			if msg := eq(fmt.Sprintf("%s:%s with %s:%s", m.Name, code, bm.Name, bm.Codes[bi]), got, w); msg != "" {
				return msg
			}
		}
	}
	return ""
}

// codeCase: one arbitrary string offered to one metric's parser.
type codeCase struct {
	Ver    int    `json:"cvss_version"`
	Metric string `json:"metric"`
	Code   []byte `json:"code_base64"`
	Text   string `json:"code_quoted"`
}

var checkC20Code = register("C20/code", func(c codeCase) string {
	a, m := apiOf(c.Ver, c.Metric), metricOf(c.Ver, c.Metric)
	if a == nil || m == nil {
		return ""
	}
	s := string(c.Code)
	got := a.get(s)
	if i := m.Index(s); i >= 0 {
		if want := constOf(c.Ver, c.Metric, i); got != want {
			return fmt.Sprintf("v%d %s: parsing %q gives %d, want constant %d", c.Ver, c.Metric, s, got, want)
		}
		return ""
	}
	if got != 0 {
		return fmt.Sprintf("v%d %s: %q is not a value code of this metric but parses to %d (%q) instead of the unknown/invalid value", c.Ver, c.Metric, s, got, a.str(got))
	}
	return ""
})

// verCase: the version label parser / printer.
type verCase struct {
	Label []byte `json:"label_base64"`
	Text  string `json:"label_quoted"`
	Int   int    `json:"integer"`
}

var checkC20Version = register("C20/version", func(c verCase) string {
	s := string(c.Label)
	// full prefix parser
	v, err := m3.GetVersion(s)
	want := m3.VUnknown
	switch s {
	case "CVSS:3.0":
		want = m3.V3_0
	case "CVSS:3.1":
		want = m3.V3_1
	}
	if v != want {
		return fmt.Sprintf("GetVersion(%q) = %v (%d), want %d", s, v, v, want)
	}
	if want != m3.VUnknown && err != nil {
		return fmt.Sprintf("GetVersion(%q) reports error %v for a supported version", s, err)
	}
	if want != m3.VUnknown && "CVSS:"+v.String() != s {
		return fmt.Sprintf("Version(%d).String() = %q is not the inverse of GetVersion(%q)", v, v.String(), s)
	}
	// legacy label parser
	n := v3ver.Get(s)
	wantN := v3ver.Unknown
	switch s {
	case "3.0":
		wantN = v3ver.V3_0
	case "3.1":
		wantN = v3ver.V3_1
	}
	if n != wantN {
		return fmt.Sprintf("version.Get(%q) = %d, want %d", s, n, wantN)
	}
	if wantN != v3ver.Unknown && n.String() != s {
		return fmt.Sprintf("version.Num(%d).String() = %q, want %q", n, n.String(), s)
	}
	// printers on arbitrary integers
	wantS := "unknown"
	switch m3.Version(c.Int) {
	case m3.V3_0:
		wantS = "3.0"
	case m3.V3_1:
		wantS = "3.1"
	}
	if got := m3.Version(c.Int).String(); got != wantS {
		return fmt.Sprintf("Version(%d).String() = %q, want %q", c.Int, got, wantS)
	}
	wantS = "unknown"
	switch v3ver.Num(c.Int) {
	case v3ver.V3_0:
		wantS = "3.0"
	case v3ver.V3_1:
		wantS = "3.1"
	}
	if got := v3ver.Num(c.Int).String(); got != wantS {
		return fmt.Sprintf("version.Num(%d).String() = %q, want %q", c.Int, got, wantS)
	}
	if wantS != "unknown" && v3ver.Get(wantS) != v3ver.Num(c.Int) {
		return fmt.Sprintf("version.Get(%q) is not the inverse of String()", wantS)
	}
	if wantS != "unknown" {
		if v2, err := m3.GetVersion("CVSS:" + wantS); err != nil || int(v2) != c.Int {
			return fmt.Sprintf("GetVersion(CVSS:%s) = %d, %v", wantS, v2, err)
		}
	}
	return ""
})

var codeAlphabet = []byte("NALPHRUCXFTWOMDSBE nlxdp01-\t")

func TestC20(t *testing.T) {
	c := begin(t, "C20")
	defer c.end()
	c.rec.F.Rule = "tables (complete): for all 22 v3 and 14 v2 metrics every code, its exported constant, printing, the validity predicates, every weight (PR per scope; every Modified metric at every own value x every base value; MPR over all 3 x 2 x 4 x 3 combinations of MS, S, MPR, PR) every integer in [-8, max+8] and integers aliasing a defined value under 8/16/32-bit truncation or carrying a second small number above it at any shift from 2 to 40 (no panic, print empty, same weight as the unknown value in every context; defined values under out-of-range contexts likewise); an ASCII character next to every two-byte rune in both orders (thorough: every valid UTF-8 string of at most 3 bytes) at every parser; long strings that start with a valid code (NUL / letter / blank fill at lengths 7..17, 255..257, 256+len, 512+len, 65536+len); code lists: two or three codes of the metric joined by one of 21 separators, a code next to a separator, the whole list; codes: every string of length <= 3 over a 28-character alphabet (all code letters, lower case, digits, dash, space, tab) at every metric's parser plus rapid arbitrary strings; version: every byte string of length <= 3 as label at the prefix parser (behind CVSS:) and at the legacy v3/version parser (complete; thorough also 4-byte labels over a 24-byte alphabet), plus label parser/printer pairs on generated labels and integers. Non-trivial = a string that is not a valid code of the metric (must parse to unknown), or a dependent-weight table; distinct by hash of (version, metric, string)."
	c.rec.F.Assumptions = []string{"weights compared with ==: both sides are the nearest double of the same decimal literal", "for the v2 base metrics only separation by IsUnknown is required (its sense is the negation of its name)"}
	if !weightsBound {
		t.Fatalf("INCONCLUSIVE: the weight accessors (Value methods) of the tree under test do not have the signatures this check binds; the weight tables cannot be decided")
	}
	nviol := 0
	if shard == 0 {
		for _, a := range apis {
			cs := tableCase{Ver: a.ver, Metric: a.name}
			m := metricOf(a.ver, a.name)
			c.rec.Case("tables", fmt.Sprintf("table|%d|%s", a.ver, a.name), m.BaseOf != "" || m.WeightsChanged != nil, fmt.Sprintf("table:v%d", a.ver))
			if c.rec.SampleCount() < 2 {
				c.rec.Sample(cs)
			}
			evalEnum(c, "table", cs, checkC20Table, &nviol)
		}
		c.rec.F.Exhaustive = append(c.rec.F.Exhaustive, "36 metrics x codes x constants x scopes / base values x integers in [-8, max+8]", "all strings of length <= 3 over the 28-character code alphabet x 36 parsers")
	}
	// every string of length <= 3 over the alphabet, at every parser
	{
		var evals, nt int64
		n := len(codeAlphabet)
		total := 1 + n + n*n + n*n*n
		for i := 0; i < total && nviol == 0; i++ {
			if !mine(i) {
				continue
			}
			var s []byte
			switch k := i; {
			case k == 0:
			case k < 1+n:
				s = []byte{codeAlphabet[k-1]}
			case k < 1+n+n*n:
				k -= 1 + n
				s = []byte{codeAlphabet[k/n], codeAlphabet[k%n]}
			default:
				k -= 1 + n + n*n
				s = []byte{codeAlphabet[k/(n*n)], codeAlphabet[(k/n)%n], codeAlphabet[k%n]}
			}
			for _, a := range apis {
				evals++
				if metricOf(a.ver, a.name).Index(string(s)) < 0 {
					nt++
				}
				cs := codeCase{Ver: a.ver, Metric: a.name, Code: s, Text: strconv.Quote(string(s))}
				if c.rec.SampleCount() < 5 && i%3001 == 17 && a.name == "MPR" {
					c.rec.Sample(cs)
				}
				evalEnum(c, "code", cs, checkC20Code, &nviol)
			}
		}
		c.rec.Bulk("short-strings", evals, nt, map[string]int64{"short-string-at-parser": evals})
	}
	// ---- short non-ASCII strings: an ASCII character next to any two-byte rune, in both
	// orders (quick); every valid UTF-8 string of at most 3 bytes (thorough) — rune / byte
	// confusions in hand-written lookups
	{
		var evals int64
		j := 0
		try := func(s string) {
			for _, a := range apis {
				evals++
				if a.get(s) != 0 {
					cs := codeCase{Ver: a.ver, Metric: a.name, Code: []byte(s), Text: strconv.Quote(s)}
					evalEnum(c, "code", cs, checkC20Code, &nviol)
				}
			}
		}
		if thorough() {
			for r1 := rune(0); r1 <= 0xFFFF && nviol == 0; r1++ {
				if r1 >= 0xD800 && r1 <= 0xDFFF {
					continue
				}
				j++
				if !mine(j) {
					continue
				}
				s1 := string(r1)
				if len(s1) == 3 {
					try(s1)
					continue
				}
				for r2 := rune(0); r2 <= 0x7FF; r2++ {
					s2 := s1 + string(r2)
					if len(s2) > 3 {
						break
					}
					if len(s2) == 3 || len(s2) == 2 {
						try(s2)
					}
					if len(s2) == 2 { // three one-byte runes
						for r3 := rune(0); r3 <= 0x7F; r3++ {
							try(s2 + string(r3))
						}
					}
				}
			}
		} else {
			for a := rune(0x20); a < 0x7F && nviol == 0; a++ {
				j++
				if !mine(j) {
					continue
				}
				for r := rune(0x80); r <= 0x7FF; r++ {
					try(string(a) + string(r))
					try(string(r) + string(a))
				}
			}
		}
		c.rec.Bulk("short-non-ascii", evals, evals, map[string]int64{"short-non-ascii-string-at-parser": evals})
		if shard == 0 && thorough() {
			c.rec.F.Exhaustive = append(c.rec.F.Exhaustive, "every valid UTF-8 string of at most 3 bytes x 36 parsers")
		}
	}
	// ---- long strings that start with a valid code (fixed-size keys, length bytes, NUL fill)
	{
		var evals int64
		j := 0
		for _, a := range apis {
			for _, code := range metricOf(a.ver, a.name).Codes {
				for _, L := range []int{len(code) + 1, 7, 8, 9, 15, 16, 17, 255, 256, 257, 256 + len(code), 512 + len(code), 65536 + len(code)} {
					if L <= len(code) {
						continue
					}
					pads := []string{strings.Repeat("\x00", L-len(code)), strings.Repeat("A", L-len(code)), strings.Repeat(" ", L-len(code))}
					if L > 8 {
						pads = append(pads, strings.Repeat("\x00", 7-len(code))+strings.Repeat("A", L-7), strings.Repeat("\x00", 8-len(code))+strings.Repeat("A", L-8))
					}
					for _, pad := range pads {
						j++
						if nviol > 0 || !mine(j) {
							continue
						}
						s := code + pad
						evals++
						cs := codeCase{Ver: a.ver, Metric: a.name, Code: []byte(s), Text: fmt.Sprintf("(%d bytes) %s", len(s), quoteShort([]byte(s)))}
						evalEnum(c, "code", cs, checkC20Code, &nviol)
					}
				}
			}
		}
		c.rec.Bulk("long-codes", evals, evals, map[string]int64{"long-string-with-code-prefix": evals})
	}
	// ---- code lists: two or three codes of the metric joined by a separator (a parser that
	// searches a delimited list accepts exactly these), a code next to a separator, and the
	// whole code list as the specification or a table prints it
	{
		var evals int64
		nviol := 0
		seps := []string{",", ";", "|", "/", " ", "\t", "\n", "-", "_", ":", ".", "+", "&", "=", "\x00", ", ", " | ", "/ ", "\\", "'", "\""}
		i := 0
		for _, a := range apis {
			m := metricOf(a.ver, a.name)
			i++
			if nviol > 0 || !mine(i) {
				continue
			}
			try := func(str string) {
				if m.Index(str) >= 0 {
					return
				}
				evals++
				evalEnum(c, "code", codeCase{Ver: a.ver, Metric: a.name, Code: []byte(str), Text: strconv.Quote(str)}, checkC20Code, &nviol)
			}
			for _, sp := range seps {
				for x, cx := range m.Codes {
					try(sp + cx)
					try(cx + sp)
					try(sp + cx + sp)
					for y, cy := range m.Codes {
						try(cx + sp + cy)
						if y == x+1 && y+1 < len(m.Codes) {
							try(cx + sp + cy + sp + m.Codes[y+1])
						}
					}
				}
				try(strings.Join(m.Codes, sp))
				try(sp + strings.Join(m.Codes, sp) + sp)
			}
		}
		c.rec.Bulk("code-lists", evals, evals, map[string]int64{"codes-joined-by-separator": evals})
	}
	c.rapidStage("rapid-codes", pick(160000, 2000000), func(rt *rapid.T) {
		a := rapid.SampledFrom(apis).Draw(rt, "metric")
		var s string
		switch rapid.IntRange(0, 3).Draw(rt, "kind") {
		case 0:
			s = rapid.String().Draw(rt, "s")
		case 1:
			s = string(rapid.SliceOfN(rapid.SampledFrom(codeAlphabet), 0, 6).Draw(rt, "alpha"))
		case 2: // a code of some metric, possibly decorated
			m := rapid.SampledFrom(append(append([]*spec.Metric(nil), spec.V3Metrics...), spec.V2Metrics...)).Draw(rt, "om")
			s = rapid.SampledFrom(m.Codes).Draw(rt, "code") + rapid.SampledFrom([]string{"", "", " ", "X", "\x00", "x"}).Draw(rt, "suffix")
		default:
			s = string(rapid.SliceOfN(rapid.Byte(), 0, 8).Draw(rt, "bytes"))
		}
		cs := codeCase{Ver: a.ver, Metric: a.name, Code: []byte(s), Text: strconv.Quote(s)}
		valid := metricOf(a.ver, a.name).Index(s) >= 0
		cl := "code:invalid"
		if valid {
			cl = "code:valid"
		}
		c.rec.Case("rapid-codes", fmt.Sprintf("%d|%s|%s", a.ver, a.name, s), !valid, cl)
		evalCase(c, rt, "code", cs, checkC20Code)
	})
	// ---- version labels: every byte string of length <= 3 (16,843,009 labels, complete) behind
	// "CVSS:" at the prefix parser and bare at the legacy label parser; only "3.0" and "3.1"
	// may parse to a version. Thorough: also every 4-byte label over a 24-byte alphabet.
	{
		var evals int64
		nviol := 0
		try := func(label []byte) {
			evals++
			s := string(label)
			v, _ := m3.GetVersion("CVSS:" + s)
			n := v3ver.Get(s)
			if (v != m3.VUnknown) != (s == "3.0" || s == "3.1") || (n != v3ver.Unknown) != (s == "3.0" || s == "3.1") {
				evalEnum(c, "version", verCase{Label: []byte("CVSS:" + s), Text: strconv.Quote("CVSS:" + s), Int: 0}, checkC20Version, &nviol)
				evalEnum(c, "version", verCase{Label: label, Text: strconv.Quote(s), Int: 0}, checkC20Version, &nviol)
			}
		}
		buf := make([]byte, 0, 4)
		for a := 0; a < 256 && nviol == 0; a++ {
			if !mine(a) {
				continue
			}
			if a == 0 {
				try(buf[:0])
			}
			try(append(buf[:0], byte(a)))
			for b := 0; b < 256; b++ {
				try(append(buf[:0], byte(a), byte(b)))
				for d := 0; d < 256; d++ {
					try(append(buf[:0], byte(a), byte(b), byte(d)))
				}
			}
		}
		if thorough() {
			alpha := []byte("0123456789.:/;<=>?@ACDENOv \x00")
			for i, a := range alpha {
				if !mine(i) || nviol > 0 {
					continue
				}
				for _, b := range alpha {
					for _, d := range alpha {
						for _, e := range alpha {
							try(append(buf[:0], a, b, d, e))
						}
					}
				}
			}
		}
		// numeric wrap-around: labels whose components equal 3, 0 or 1 modulo a power of two
		// (a hand-written number parser without overflow check), with leading zeros, signs
		// and exponents (a tolerant one)
		if shard == 0 {
			pow := map[string]string{"2^8": "256", "2^16": "65536", "2^31": "2147483648", "2^32": "4294967296", "2^63": "9223372036854775808", "2^64": "18446744073709551616", "2^128": "340282366920938463463374607431768211456"}
			addTo := func(dec string, k int) string { // decimal string + small k
				b, _ := new(big.Int).SetString(dec, 10)
				return b.Add(b, big.NewInt(int64(k))).String()
			}
			for _, p := range pow {
				for _, minor := range []int{0, 1} {
					try([]byte("3." + addTo(p, minor)))
					try([]byte(addTo(p, 3) + "." + strconv.Itoa(minor)))
					try([]byte(addTo(p, 3) + "." + addTo(p, minor)))
					try([]byte(addTo(p, 30+minor)))
				}
			}
			for _, l := range []string{"03.1", "3.01", "3.10", "3.1.0", "+3.1", "3.+1", "-3.1", "3.1e0", "3e0.1", "0x3.1", "3.1 ", " 3.1", "3 .1", "3. 1", "３.１", "3.١", "3,1", "3_1", "3.1_", "3.1\x00", "3..1", ".3.1", "3.1.", "31", "3", ".1", "3."} {
				try([]byte(l))
			}
		}
		c.rec.Bulk("version-labels", evals, evals, map[string]int64{"version-label<=3-bytes": evals})
		if shard == 0 {
			c.rec.F.Exhaustive = append(c.rec.F.Exhaustive, "every byte string of length <= 3 as version label at both label parsers")
		}
	}
	c.rapidStage("rapid-version", pick(20000, 500000), func(rt *rapid.T) {
		var s string
		switch rapid.IntRange(0, 3).Draw(rt, "kind") {
		case 0:
			s = rapid.SampledFrom([]string{"CVSS:3.0", "CVSS:3.1", "3.0", "3.1", "CVSS:", "CVSS:3", "CVSS:3.2", "CVSS:2.0", "CVSS:4.0", "cvss:3.1", "CVSS:3.1:", "CVSS", "", "3", "3.10", " 3.1", "unknown", "CVSS:unknown"}).Draw(rt, "label")
		case 1:
			s = "CVSS:" + rapid.StringMatching(`[0-9]\.[0-9]`).Draw(rt, "ver")
		case 2:
			s = rapid.StringMatching(`[0-9]\.[0-9]`).Draw(rt, "ver")
		default:
			s = rapid.String().Draw(rt, "s")
		}
		n := rapid.IntRange(-8, 10).Draw(rt, "int")
		if rapid.IntRange(0, 9).Draw(rt, "wide") == 0 {
			n = rapid.Int().Draw(rt, "anyint")
		}
		cs := verCase{Label: []byte(s), Text: strconv.Quote(s), Int: n}
		c.rec.Case("rapid-version", fmt.Sprintf("ver|%s|%d", s, n), true, "version-case")
		if c.rec.SampleCount() < 8 {
			c.rec.Sample(cs)
		}
		evalCase(c, rt, "version", cs, checkC20Version)
	})
}
