package props

import (
	"errors"
	"fmt"
	"math"

	"github.com/goark/go-cvss/cvsserr"
	m2 "github.com/goark/go-cvss/v2/metric"
	m3 "github.com/goark/go-cvss/v3/metric"
	"verif/harness/spec"
)

// tenths converts a library score to an integer number of tenths; ok is false when the
// float is not exactly float64(k)/10 (-0.0 counts as 0).
func tenths(score float64) (int, bool) {
	if math.IsNaN(score) || math.IsInf(score, 0) {
		return 0, false
	}
	k := int(math.Round(score * 10))
	return k, score == float64(k)/10
}

func fmtScore(f float64) string { return fmt.Sprintf("%v", f) }

// ---- v3 ------------------------------------------------------------------------

// obj3 holds the result of a v3 decode at some level; the lower-level views are taken
// through the accessor methods of the decoded object.
type obj3 struct {
	level spec.Level
	B     *m3.Base
	T     *m3.Temporal
	E     *m3.Environmental
}

// decode3 decodes s with the v3 decoder of the level, through a constructor or through a
// nil receiver. On error all object pointers are nil unless the library returned one.
func decode3(level spec.Level, s string, nilRecv bool) (obj3, error) {
	o := obj3{level: level}
	var err error
	switch level {
	case spec.Base:
		var r *m3.Base
		if !nilRecv {
			r = m3.NewBase()
		}
		o.B, err = r.Decode(s)
	case spec.Temporal:
		var r *m3.Temporal
		if !nilRecv {
			r = m3.NewTemporal()
		}
		o.T, err = r.Decode(s)
		if o.T != nil {
			o.B = o.T.BaseMetrics()
		}
	default:
		var r *m3.Environmental
		if !nilRecv {
			r = m3.NewEnvironmental()
		}
		o.E, err = r.Decode(s)
		if o.E != nil {
			o.T = o.E.TemporalMetrics()
			o.B = o.E.BaseMetrics()
		}
	}
	return o, err
}

// refreshed re-derives the lower-level pointers from the top-level object through the
// accessors. The harness must not assume that an accessor result taken earlier still
// aliases the object (an implementation may hand out copies): whenever the top-level object
// may have changed since the pointers were taken, they are taken again.
func (o obj3) refreshed() obj3 {
	switch o.level {
	case spec.Temporal:
		if o.T != nil {
			o.B = o.T.BaseMetrics()
		}
	case spec.Environmental:
		if o.E != nil {
			o.T, o.B = o.E.TemporalMetrics(), o.E.BaseMetrics()
		}
	}
	return o
}

func (o obj3) isNil() bool {
	switch o.level {
	case spec.Base:
		return o.B == nil
	case spec.Temporal:
		return o.T == nil
	}
	return o.E == nil
}

// ---- v2 ------------------------------------------------------------------------

type obj2 struct {
	level spec.Level
	B     *m2.Base
	T     *m2.Temporal
	E     *m2.Environmental
}

func decode2(level spec.Level, s string, nilRecv bool) (obj2, error) {
	o := obj2{level: level}
	var err error
	switch level {
	case spec.Base:
		var r *m2.Base
		if !nilRecv {
			r = m2.NewBase()
		}
		o.B, err = r.Decode(s)
	case spec.Temporal:
		var r *m2.Temporal
		if !nilRecv {
			r = m2.NewTemporal()
		}
		o.T, err = r.Decode(s)
		if o.T != nil {
			o.B = o.T.BaseMetrics()
		}
	default:
		var r *m2.Environmental
		if !nilRecv {
			r = m2.NewEnvironmental()
		}
		o.E, err = r.Decode(s)
		if o.E != nil {
			o.T = o.E.TemporalMetrics()
			o.B = o.E.BaseMetrics()
		}
	}
	return o, err
}

func (o obj2) refreshed() obj2 {
	switch o.level {
	case spec.Temporal:
		if o.T != nil {
			o.B = o.T.BaseMetrics()
		}
	case spec.Environmental:
		if o.E != nil {
			o.T, o.B = o.E.TemporalMetrics(), o.E.BaseMetrics()
		}
	}
	return o
}

func (o obj2) isNil() bool {
	switch o.level {
	case spec.Base:
		return o.B == nil
	case spec.Temporal:
		return o.T == nil
	}
	return o.E == nil
}

// ---- sentinels -----------------------------------------------------------------

type sentinel struct {
	name string
	err  error
	d    spec.Defect // matching defect kind, -1 when none
}

var sentinels = []sentinel{
	{"ErrNullPointer", cvsserr.ErrNullPointer, -1},
	{"ErrInvalidVector", cvsserr.ErrInvalidVector, spec.DInvalidVector},
	{"ErrNotSupportVer", cvsserr.ErrNotSupportVer, spec.DUnsupportedVersion},
	{"ErrNotSupportMetric", cvsserr.ErrNotSupportMetric, spec.DUnsupportedMetric},
	{"ErrInvalidTemplate", cvsserr.ErrInvalidTemplate, -1},
	{"ErrSameMetric", cvsserr.ErrSameMetric, spec.DSameMetric},
	{"ErrInvalidValue", cvsserr.ErrInvalidValue, spec.DInvalidValue},
	{"ErrNoBaseMetrics", cvsserr.ErrNoBaseMetrics, spec.DNoBase},
	{"ErrNoTemporalMetrics", cvsserr.ErrNoTemporalMetrics, spec.DNoTemporal},
	{"ErrNoEnvironmentalMetrics", cvsserr.ErrNoEnvironmentalMetrics, spec.DNoEnvironmental},
	{"ErrMisordered", cvsserr.ErrMisordered, spec.DMisordered},
}

// matching returns the sentinels err matches under errors.Is.
func matching(err error) []sentinel {
	var r []sentinel
	for _, s := range sentinels {
		if errors.Is(err, s.err) {
			r = append(r, s)
		}
	}
	return r
}

// decode3Keep is decode3 that, on failure, returns the receiver left behind (constructor
// receivers only) instead of nil pointers.
func decode3Keep(level spec.Level, s string, nilRecv bool) (obj3, error) {
	if nilRecv {
		return decode3(level, s, true)
	}
	o := obj3{level: level}
	var err error
	switch level {
	case spec.Base:
		r := m3.NewBase()
		_, err = r.Decode(s)
		o.B = r
	case spec.Temporal:
		r := m3.NewTemporal()
		_, err = r.Decode(s)
		o.T, o.B = r, r.BaseMetrics()
	default:
		r := m3.NewEnvironmental()
		_, err = r.Decode(s)
		o.E, o.T, o.B = r, r.TemporalMetrics(), r.BaseMetrics()
	}
	return o, err
}

func decode2Keep(level spec.Level, s string, nilRecv bool) (obj2, error) {
	if nilRecv {
		return decode2(level, s, true)
	}
	o := obj2{level: level}
	var err error
	switch level {
	case spec.Base:
		r := m2.NewBase()
		_, err = r.Decode(s)
		o.B = r
	case spec.Temporal:
		r := m2.NewTemporal()
		_, err = r.Decode(s)
		o.T, o.B = r, r.BaseMetrics()
	default:
		r := m2.NewEnvironmental()
		_, err = r.Decode(s)
		o.E, o.T, o.B = r, r.TemporalMetrics(), r.BaseMetrics()
	}
	return o, err
}

// decode3Pre / decode2Pre: the decoder comes from the constructor and every observer of every
// view of it (scores, severities, validity, encodings, accessors) is called once before its
// single Decode. What the decoded object then answers is the business of the calling check.
func decode3Pre(level spec.Level, s string) (obj3, error) {
	o := obj3{level: level}
	var err error
	switch level {
	case spec.Base:
		r := m3.NewBase()
		snapViews(views3(r, nil, nil, level))
		o.B, err = r.Decode(s)
	case spec.Temporal:
		r := m3.NewTemporal()
		snapViews(views3(nil, r, nil, level))
		o.T, err = r.Decode(s)
	default:
		r := m3.NewEnvironmental()
		snapViews(views3(nil, nil, r, level))
		o.E, err = r.Decode(s)
	}
	return o.refreshed(), err
}

func decode2Pre(level spec.Level, s string) (obj2, error) {
	o := obj2{level: level}
	var err error
	switch level {
	case spec.Base:
		r := m2.NewBase()
		snapViews(views2(r, nil, nil, level))
		o.B, err = r.Decode(s)
	case spec.Temporal:
		r := m2.NewTemporal()
		snapViews(views2(nil, r, nil, level))
		r.IsEmpty()
		o.T, err = r.Decode(s)
	default:
		r := m2.NewEnvironmental()
		snapViews(views2(nil, nil, r, level))
		r.IsEmpty()
		r.TemporalMetrics().IsEmpty()
		o.E, err = r.Decode(s)
	}
	return o.refreshed(), err
}
