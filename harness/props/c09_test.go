package props

import (
	"fmt"
	m2 "github.com/goark/go-cvss/v2/metric"
	m3 "github.com/goark/go-cvss/v3/metric"
	"strings"
	"testing"

	"pgregory.net/rapid"
	"verif/harness/bind"
	"verif/harness/gen"
	"verif/harness/spec"
)

// C09 — a decoded object holds exactly the written values (order-independent, X == omitted)
// C10 — canonical encoding; decode(encode(decode)) is the identity
// C14 — base / temporal / environmental views agree with independent lower-level decodes

// vecCase: an accepted vector offered to the decoder of Level.
type vecCase struct {
	Ver     int    `json:"cvss_version"`
	Level   int    `json:"decoder_level"`
	NilRecv bool   `json:"nil_receiver"`
	Input   string `json:"input"`
	// Prior: a vector that the same decoder object has decoded successfully before Input is
	// offered to it (empty: a fresh decoder). A decoder may refuse to be used twice — the
	// unchanged library does — and nothing is asserted then; if it accepts, the object it
	// returns is the decoded object of an accepted vector like any other.
	Prior string `json:"prior_vector,omitempty"`
	// PreQuery: the constructor result has every observer of every view called once before its
	// single Decode (ignored for nil receivers and when Prior is set).
	PreQuery bool `json:"queried_before_decode,omitempty"`
}

func (c vecCase) key() string {
	return fmt.Sprintf("%d|%d|%v|%v|%s|%s", c.Ver, c.Level, c.NilRecv, c.PreQuery, c.Input, c.Prior)
}

var reuseAccepted, reuseRefused int64

// decodeVec3 / decodeVec2 decode the case's input through a fresh decoder or, when the case
// names a prior vector, through a decoder object that has decoded that vector before. skip:
// the re-used decoder refused (or the prior vector could not be decoded: C07/C08's subject).
func decodeVec3(c vecCase) (o obj3, err error, skip bool) {
	lv := spec.Level(c.Level)
	if c.Prior == "" {
		if c.PreQuery && !c.NilRecv {
			o, err = decode3Pre(lv, c.Input)
			return o, err, false
		}
		o, err = decode3(lv, c.Input, c.NilRecv)
		return o, err, false
	}
	p, perr := decode3(lv, c.Prior, false)
	if perr != nil || p.isNil() {
		return o, nil, true
	}
	o = obj3{level: lv}
	switch lv {
	case spec.Base:
		o.B, err = p.B.Decode(c.Input)
	case spec.Temporal:
		o.T, err = p.T.Decode(c.Input)
	default:
		o.E, err = p.E.Decode(c.Input)
	}
	if err != nil {
		reuseRefused++
		return o, nil, true
	}
	reuseAccepted++
	return o.refreshed(), nil, false
}

func decodeVec2(c vecCase) (o obj2, err error, skip bool) {
	lv := spec.Level(c.Level)
	if c.Prior == "" {
		if c.PreQuery && !c.NilRecv {
			o, err = decode2Pre(lv, c.Input)
			return o, err, false
		}
		o, err = decode2(lv, c.Input, c.NilRecv)
		return o, err, false
	}
	p, perr := decode2(lv, c.Prior, false)
	if perr != nil || p.isNil() {
		return o, nil, true
	}
	o = obj2{level: lv}
	switch lv {
	case spec.Base:
		o.B, err = p.B.Decode(c.Input)
	case spec.Temporal:
		o.T, err = p.T.Decode(c.Input)
	default:
		o.E, err = p.E.Decode(c.Input)
	}
	if err != nil {
		reuseRefused++
		return o, nil, true
	}
	reuseAccepted++
	return o.refreshed(), nil, false
}

// refusedDecodeNoise performs decodes that every decoder refuses, through nil receivers and
// constructors, between two cases: fully written vectors with one late defect, so that a
// refused decode has already parsed every metric. What they return is C07/C11/C12's subject;
// here they are history that must not influence the next accepted vector.
var refusedV3 = []string{
	"CVSS:3.1/AV:P/AC:H/PR:H/UI:R/S:C/C:L/I:L/A:L/E:U/RL:O/RC:U/CR:H/IR:H/AR:H/MAV:P/MAC:H/MPR:H/MUI:R/MS:C/MC:H/MI:H/MA:H/ZZ:1",
	"CVSS:3.0/AC:H/PR:H/UI:R/S:C/C:L/I:L/A:L/E:U/RL:O/RC:U/CR:L/IR:L/AR:L/MAV:A/MAC:L/MPR:L/MUI:N/MS:U/MC:L/MI:L/MA:L",
	"CVSS:3.1/MA:H/MI:H/MC:H/MS:C/MUI:R/MPR:H/MAC:H/MAV:P/AR:H/IR:H/CR:H/RC:U/RL:O/E:U/A:L/I:L/C:L/S:C/UI:R/PR:H/AC:H/AV:Q",
	"CVSS:3.1/AV:P/AC:H/PR:H/UI:R/S:C/C:L/I:L/A:L/E:U/RL:O/RC:U/E:F",
}
var refusedV2 = []string{
	"AV:L/AC:H/Au:M/C:P/I:P/A:P/E:U/RL:OF/RC:UC/CDP:H/TD:H/CR:H/IR:H/AR:H/ZZ:1",
	"AV:L/AC:H/Au:M/C:P/I:P/A:P/E:U/RL:OF/RC:UC/CDP:H/TD:H/CR:H/IR:H/AR:Q",
	"AC:H/Au:M/C:P/I:P/A:P/E:U/RL:OF/RC:UC",
	"AV:L/AC:H/Au:M/C:P/I:P/A:P/E:U/RL:OF",
}

var refusedCount int

func refusedDecodeNoise(ver int, lv spec.Level) {
	refusedCount++ // one vector per case, in rotation (a replayed case starts the rotation anew)
	if ver == 3 {
		bad := refusedV3[refusedCount%len(refusedV3)]
		decode3(lv, bad, true)
		decode3(lv, bad, false)
		return
	}
	bad := refusedV2[refusedCount%len(refusedV2)]
	decode2(lv, bad, true)
	decode2(lv, bad, false)
}

// ---------------------------------------------------------------------------------------------
// C09

var checkC09 = register("C09/vector", func(c vecCase) string {
	lv := spec.Level(c.Level)
	refusedDecodeNoise(c.Ver, lv)
	if c.Ver == 3 {
		ref, ok := spec.AcceptV3(c.Input, lv)
		if !ok {
			return ""
		}
		o, err, skip := decodeVec3(c)
		if skip {
			return ""
		}
		if err != nil || o.isNil() {
			return fmt.Sprintf("accepted vector rejected: %v", err)
		}
		s := snap3(o)
		idx := spec.IdxV3(ref)
		want, _ := bind.V3Value("Ver", idx.Ver)
		if s.Fields["Ver"] != want {
			return fmt.Sprintf("field Ver = %d, written version %s is constant %d", s.Fields["Ver"], ref.Ver, want)
		}
		for _, m := range spec.UpTo(spec.V3Metrics, lv) {
			val, written := ref.Get(m.Name)
			i := 0 // Not Defined
			if written {
				i = m.Index(val)
			}
			want, _ := bind.V3Value(m.Name, i)
			got, present := s.Fields[m.Name]
			if !present || got != want {
				return fmt.Sprintf("field %s = %d, vector writes %q (written=%v) which is constant %d", m.Name, got, val, written, want)
			}
		}
		// metamorphic: canonical order with everything spelled out, and canonical order
		// with only the defined metrics, decode to the same observable object
		for _, spell := range []bool{true, false} {
			twin := gen.V3FromIdx(idx, lv, spell).String()
			o2, err := decode3(lv, twin, false)
			if err != nil {
				return fmt.Sprintf("twin presentation %q rejected: %v", twin, err)
			}
			if d := s.diff(snap3(o2)); d != "" {
				return fmt.Sprintf("same token set, different object: %q vs %q: %s", c.Input, twin, d)
			}
		}
		// the object must keep holding what its vector wrote while related vectors are decoded
		// the same way: the same metrics under the other version, and its base part alone
		other := "CVSS:3.0"
		if ref.Ver == "3.0" {
			other = "CVSS:3.1"
		}
		decode3(lv, other+strings.TrimPrefix(c.Input, "CVSS:"+ref.Ver), c.NilRecv)
		decode3(lv, spec.ProjectV3(ref, spec.Base).String(), c.NilRecv)
		if d := s.diff(snap3(o)); d != "" {
			return fmt.Sprintf("the object decoded from %q changed while related vectors (other version, base part) were decoded: %s", c.Input, d)
		}
		return ""
	}
	ref, ok := spec.AcceptV2(c.Input, lv)
	if !ok {
		return ""
	}
	o, err, skip := decodeVec2(c)
	if skip {
		return ""
	}
	if err != nil || o.isNil() {
		return fmt.Sprintf("accepted vector rejected: %v", err)
	}
	s := snap2(o)
	hasT, hasE := spec.V2Shape(ref)
	for _, m := range spec.UpTo(spec.V2Metrics, lv) {
		val, written := ref.Get(m.Name)
		if !written {
			continue // the group is absent: emptiness is what is observable
		}
		want, _ := bind.V2Value(m.Name, m.Index(val))
		if got, present := s.Fields[m.Name]; !present || got != want {
			return fmt.Sprintf("field %s = %d, vector writes %q which is constant %d", m.Name, got, val, want)
		}
	}
	wantEmpty := ""
	switch lv {
	case spec.Temporal:
		wantEmpty = fmt.Sprintf("T:%v", !hasT)
	case spec.Environmental:
		wantEmpty = fmt.Sprintf("T:%v E:%v", !hasT, !hasE)
	}
	if s.Empty != wantEmpty {
		return fmt.Sprintf("IsEmpty() reports %q, vector groups give %q", s.Empty, wantEmpty)
	}
	decode2(lv, spec.ProjectV2(ref, spec.Base).String(), c.NilRecv)
	decode2(lv, c.Input, c.NilRecv)
	if d := s.diff(snap2(o)); d != "" {
		return fmt.Sprintf("the object decoded from %q changed while related vectors (the same again, base part) were decoded: %s", c.Input, d)
	}
	return ""
})

// ---------------------------------------------------------------------------------------------
// C10

var checkC10 = register("C10/vector", func(c vecCase) string {
	lv := spec.Level(c.Level)
	refusedDecodeNoise(c.Ver, lv)
	if c.Ver == 3 {
		ref, ok := spec.AcceptV3(c.Input, lv)
		if !ok {
			return ""
		}
		o, err, skip := decodeVec3(c)
		if skip {
			return ""
		}
		if err != nil || o.isNil() {
			return fmt.Sprintf("accepted vector rejected: %v", err)
		}
		s := snap3(o)
		top := s.Views[0]
		want := spec.CanonV3(ref, lv)
		if top.Enc != want || top.EncErr != "" {
			return fmt.Sprintf("Encode() = (%q, %s), canonical encoding is %q", top.Enc, top.EncErr, want)
		}
		if top.Str != top.Enc {
			return fmt.Sprintf("String() = %q differs from Encode() = %q", top.Str, top.Enc)
		}
		o2, err := decode3(lv, top.Enc, false)
		if err != nil {
			return fmt.Sprintf("the encoding %q is rejected by the same decoder: %v", top.Enc, err)
		}
		if d := s.diff(snap3(o2)); d != "" {
			return fmt.Sprintf("decode(encode(x)) differs from x for %q: %s", c.Input, d)
		}
		// the returned text must stay what it was: encode other objects of the same level, then
		// look at the held encoding (and String()) again
		held, heldStr := top.Enc, top.Str
		for _, dv := range []string{"CVSS:3.0/AV:P/AC:H/PR:H/UI:R/S:C/C:L/I:N/A:L/E:U/RL:O/RC:U/CR:L/IR:H/AR:M/MAV:L/MAC:H/MPR:L/MUI:N/MS:U/MC:L/MI:H/MA:N", "CVSS:3.1/AV:L/AC:L/PR:L/UI:N/S:U/C:N/I:N/A:H"} {
			if ref2, ok := spec.AcceptV3(dv, spec.Environmental); ok {
				if d, err := decode3(lv, spec.ProjectV3(ref2, lv).String(), false); err == nil {
					snap3(d)
				}
			}
		}
		// ... and the receivers left behind by refused decodes (what they return is C12's
		// subject; here they are only work done between two encodes of valid objects)
		if d, err := decode3Keep(lv, []string{"CVSS:3.1/AV:N/AC:L/PR:N", "CVSS:3.0/AV:N/AC:L/PR:N/UI:N/S:U/C:H/I:H/A:H/E:Q", "CVSS:3.1/AV:N/AC:L/PR:N/UI:N/S:U/C:H/I:H/A:H/ZZ:1"}[refusedCount%3], false); err != nil {
			snap3(d)
		}
		if held != want || heldStr != want {
			return fmt.Sprintf("the encoding returned for %q changed after other objects were encoded: now %q / %q, canonical %q", c.Input, held, heldStr, want)
		}
		return ""
	}
	if _, ok := spec.AcceptV2(c.Input, lv); !ok {
		return ""
	}
	o, err, skip := decodeVec2(c)
	if skip {
		return ""
	}
	if err != nil || o.isNil() {
		return fmt.Sprintf("accepted vector rejected: %v", err)
	}
	s := snap2(o)
	top := s.Views[0]
	if top.Enc != c.Input || top.EncErr != "" {
		return fmt.Sprintf("Encode() = (%q, %s), must be byte-identical to the input %q", top.Enc, top.EncErr, c.Input)
	}
	if top.Str != top.Enc {
		return fmt.Sprintf("String() = %q differs from Encode() = %q", top.Str, top.Enc)
	}
	o2, err := decode2(lv, top.Enc, false)
	if err != nil {
		return fmt.Sprintf("the encoding %q is rejected by the same decoder: %v", top.Enc, err)
	}
	if d := s.diff(snap2(o2)); d != "" {
		return fmt.Sprintf("decode(encode(x)) differs from x for %q: %s", c.Input, d)
	}
	held, heldStr := top.Enc, top.Str
	for _, dv := range []string{"AV:L/AC:H/Au:M/C:P/I:N/A:C", "AV:N/AC:L/Au:N/C:N/I:N/A:C/E:F/RL:OF/RC:C", "AV:A/AC:M/Au:S/C:C/I:P/A:N/E:POC/RL:W/RC:UR/CDP:LM/TD:M/CR:H/IR:L/AR:M"} {
		if d, err := decode2(lv, dv, false); err == nil {
			snap2(d)
		}
	}
	if d, err := decode2Keep(lv, []string{"AV:N/AC:L/Au:N", "AV:N/AC:L/Au:N/C:P/I:P/A:Q", "AV:N/AC:L/Au:N/C:P/I:P/A:P/E:F"}[refusedCount%3], false); err != nil {
		snap2(d)
	}
	if held != c.Input || heldStr != c.Input {
		return fmt.Sprintf("the encoding returned for %q changed after other objects were encoded: now %q / %q", c.Input, held, heldStr)
	}
	return ""
})

// ---------------------------------------------------------------------------------------------
// C14

func sameView(what string, a, b viewSnap) string {
	if a.Score != b.Score || a.Sev != b.Sev || a.Enc != b.Enc || a.EncErr != b.EncErr {
		return fmt.Sprintf("%s: through the higher object (score %v, severity %s, encoding %q %s) vs independent decode (score %v, severity %s, encoding %q %s)", what, a.Score, a.Sev, a.Enc, a.EncErr, b.Score, b.Sev, b.Enc, b.EncErr)
	}
	return ""
}

var checkC14 = register("C14/vector", func(c vecCase) string {
	// two query orders: the lower views are read first / the top-level object is queried
	// completely first (a higher-level query must not disturb what the lower views report)
	if m := c14Once(c, false); m != "" {
		return m
	}
	if m := c14Once(c, true); m != "" {
		return "after the top-level object was queried first: " + m
	}
	if !c.NilRecv {
		preAccess = true
		m := c14Once(c, false)
		preAccess = false
		if m != "" {
			return "with the accessors called on the constructor result before its Decode: " + m
		}
		preAccess, preFull = true, true
		m = c14Once(c, false)
		preAccess, preFull = false, false
		if m != "" {
			return "with every observer called on the constructor result before its Decode: " + m
		}
	}
	return ""
})

// preFull (with preAccess): every observer of every view, not only the accessors.
var preFull bool

// preAccess makes decodeForC14 call the accessors on the fresh constructor result before the
// Decode (what they return then is discarded).
var preAccess bool

func decode3ForC14(lv spec.Level, s string, nilRecv bool) (obj3, error) {
	if !preAccess || nilRecv {
		return decode3(lv, s, nilRecv)
	}
	if preFull {
		return decode3Pre(lv, s)
	}
	o := obj3{level: lv}
	var err error
	switch lv {
	case spec.Temporal:
		r := m3.NewTemporal()
		r.BaseMetrics()
		o.T, err = r.Decode(s)
		if o.T != nil {
			o.B = o.T.BaseMetrics()
		}
	case spec.Environmental:
		r := m3.NewEnvironmental()
		r.BaseMetrics()
		r.TemporalMetrics().BaseMetrics()
		o.E, err = r.Decode(s)
		if o.E != nil {
			o.T, o.B = o.E.TemporalMetrics(), o.E.BaseMetrics()
		}
	default:
		return decode3(lv, s, nilRecv)
	}
	return o, err
}

func decode2ForC14(lv spec.Level, s string, nilRecv bool) (obj2, error) {
	if !preAccess || nilRecv {
		return decode2(lv, s, nilRecv)
	}
	if preFull {
		return decode2Pre(lv, s)
	}
	o := obj2{level: lv}
	var err error
	switch lv {
	case spec.Temporal:
		r := m2.NewTemporal()
		r.BaseMetrics()
		o.T, err = r.Decode(s)
		if o.T != nil {
			o.B = o.T.BaseMetrics()
		}
	case spec.Environmental:
		r := m2.NewEnvironmental()
		r.BaseMetrics()
		r.TemporalMetrics().BaseMetrics()
		o.E, err = r.Decode(s)
		if o.E != nil {
			o.T, o.B = o.E.TemporalMetrics(), o.E.BaseMetrics()
		}
	default:
		return decode2(lv, s, nilRecv)
	}
	return o, err
}

func c14Once(c vecCase, topFirst bool) string {
	lv := spec.Level(c.Level)
	if lv < spec.Temporal {
		return ""
	}
	if c.Ver == 3 {
		ref, ok := spec.AcceptV3(c.Input, lv)
		if !ok {
			return ""
		}
		o, err := decode3ForC14(lv, c.Input, c.NilRecv)
		if err != nil || o.isNil() {
			return fmt.Sprintf("accepted vector rejected: %v", err)
		}
		if topFirst {
			snapViews(views3(o.B, o.T, o.E, lv)[:1])
		}
		ob, err := decode3(spec.Base, spec.ProjectV3(ref, spec.Base).String(), false)
		if err != nil {
			return fmt.Sprintf("base projection rejected: %v", err)
		}
		independentBase := snapViews(views3(ob.B, nil, nil, spec.Base))[0]
		if lv == spec.Temporal {
			if o.T.BaseMetrics() == nil {
				return "BaseMetrics() of a decoded temporal object is nil"
			}
			return sameView("base view of temporal object", snapViews(views3(o.T.BaseMetrics(), nil, nil, spec.Base))[0], independentBase)
		}
		if o.E.BaseMetrics() == nil || o.E.TemporalMetrics() == nil {
			return "accessor of a decoded environmental object returns nil"
		}
		ot, err := decode3(spec.Temporal, spec.ProjectV3(ref, spec.Temporal).String(), false)
		if err != nil {
			return fmt.Sprintf("temporal projection rejected: %v", err)
		}
		independentTemporal := snapViews(views3(nil, ot.T, nil, spec.Temporal))[0]
		// the temporal view is read before the base view when topFirst (both orders occur)
		if topFirst {
			if m := sameView("temporal view of environmental object", snapViews(views3(nil, o.E.TemporalMetrics(), nil, spec.Temporal))[0], independentTemporal); m != "" {
				return m
			}
		}
		if m := sameView("base view of environmental object", snapViews(views3(o.E.BaseMetrics(), nil, nil, spec.Base))[0], independentBase); m != "" {
			return m
		}
		if m := sameView("base view of the temporal view of the environmental object", snapViews(views3(o.E.TemporalMetrics().BaseMetrics(), nil, nil, spec.Base))[0], independentBase); m != "" {
			return m
		}
		return sameView("temporal view of environmental object", snapViews(views3(nil, o.E.TemporalMetrics(), nil, spec.Temporal))[0], independentTemporal)
	}
	ref, ok := spec.AcceptV2(c.Input, lv)
	if !ok {
		return ""
	}
	o, err := decode2ForC14(lv, c.Input, c.NilRecv)
	if err != nil || o.isNil() {
		return fmt.Sprintf("accepted vector rejected: %v", err)
	}
	if topFirst {
		snapViews(views2(o.B, o.T, o.E, lv)[:1])
	}
	ob, err := decode2(spec.Base, spec.ProjectV2(ref, spec.Base).String(), false)
	if err != nil {
		return fmt.Sprintf("base projection rejected: %v", err)
	}
	independentBase := snapViews(views2(ob.B, nil, nil, spec.Base))[0]
	if lv == spec.Temporal {
		if o.T.BaseMetrics() == nil {
			return "BaseMetrics() of a decoded temporal object is nil"
		}
		return sameView("base view of temporal object", snapViews(views2(o.T.BaseMetrics(), nil, nil, spec.Base))[0], independentBase)
	}
	if o.E.BaseMetrics() == nil || o.E.TemporalMetrics() == nil {
		return "an accessor of a decoded environmental object returns nil"
	}
	ot, err := decode2(spec.Temporal, spec.ProjectV2(ref, spec.Temporal).String(), false)
	if err != nil {
		return fmt.Sprintf("temporal projection rejected: %v", err)
	}
	independentTemporal := snapViews(views2(nil, ot.T, nil, spec.Temporal))[0]
	if topFirst {
		if m := sameView("temporal view of environmental object", snapViews(views2(nil, o.E.TemporalMetrics(), nil, spec.Temporal))[0], independentTemporal); m != "" {
			return m
		}
	}
	if m := sameView("base view of environmental object", snapViews(views2(o.E.BaseMetrics(), nil, nil, spec.Base))[0], independentBase); m != "" {
		return m
	}
	return sameView("temporal view of environmental object", snapViews(views2(nil, o.E.TemporalMetrics(), nil, spec.Temporal))[0], independentTemporal)
}

// ---------------------------------------------------------------------------------------------
// shared generators / enumerations

func vecLabels(ver int, v spec.Vec, lv spec.Level) (nontrivial bool, cl []string) {
	if ver == 3 {
		s := v.String()
		canon := spec.CanonV3(v, lv)
		nOpt, nX := 0, 0
		for _, t := range v.Toks {
			if m := spec.ByName(spec.V3Metrics, t.Name); m != nil && m.Level > spec.Base {
				nOpt++
				if t.Value == "X" {
					nX++
				}
			}
		}
		omitted := len(spec.UpTo(spec.V3Metrics, lv)) - 8 - nOpt
		if s != canon {
			cl = append(cl, "v3:non-canonical")
		} else {
			cl = append(cl, "v3:canonical")
		}
		if nX > 0 {
			cl = append(cl, "v3:explicit-X")
		}
		if omitted > 0 {
			cl = append(cl, "v3:omitted-metrics")
		}
		if nOpt-nX > 0 {
			cl = append(cl, "v3:defined-optional")
		}
		return s != canon, cl
	}
	hasT, hasE := spec.V2Shape(v)
	cl = append(cl, fmt.Sprintf("v2:T=%v,E=%v", hasT, hasE))
	return hasT || hasE, cl
}

// forEachSweepVector enumerates the deterministic sweeps: every metric x every code x
// every token position (v3), every subset of the optional v3 metrics, every v2 metric x
// code in each group shape; thorough: all 8! orders of the base tokens of 4 vectors.
func forEachSweepVector(f func(ver int, lv spec.Level, v spec.Vec, label string)) {
	// v3: every metric x every code x every position, decoder = level of the metric and above
	base := spec.Vec{Ver: "3.1"}
	for _, m := range spec.V3B() {
		base.Toks = append(base.Toks, spec.Tok{Name: m.Name, Value: m.Codes[len(m.Codes)-1]})
	}
	for _, m := range spec.V3Metrics {
		for _, code := range m.Codes {
			v := spec.Vec{Ver: []string{"3.0", "3.1"}[len(code)%2]}
			var rest []spec.Tok
			for _, t := range base.Toks {
				if t.Name != m.Name {
					rest = append(rest, t)
				}
			}
			tok := spec.Tok{Name: m.Name, Value: code}
			for pos := 0; pos <= len(rest); pos++ {
				v.Toks = append(append(append([]spec.Tok(nil), rest[:pos]...), tok), rest[pos:]...)
				for lv := m.Level; lv <= spec.Environmental; lv++ {
					f(3, lv, v, "sweep:v3-metric-code-position")
				}
			}
		}
	}
	// v3: all 2^14 subsets of the optional metrics at the environmental decoder
	opt := append(append([]*spec.Metric(nil), spec.V3T()...), spec.V3E()...)
	for mask := 0; mask < 1<<14; mask++ {
		r := gen.NewRng(uint64(mask)*7919 + uint64(seed))
		v := spec.Vec{Ver: []string{"3.0", "3.1"}[mask%2]}
		for _, m := range spec.V3B() {
			v.Toks = append(v.Toks, spec.Tok{Name: m.Name, Value: m.Codes[r.Intn(len(m.Codes))]})
		}
		for i, m := range opt {
			if mask&(1<<i) != 0 {
				v.Toks = append(v.Toks, spec.Tok{Name: m.Name, Value: m.Codes[r.Intn(len(m.Codes))]})
			}
		}
		f(3, spec.Environmental, v, "sweep:v3-optional-subset")
		if mask < 8 { // subsets of the temporal metrics at the temporal decoder
			f(3, spec.Temporal, v, "sweep:v3-optional-subset")
		}
	}
	// v2: every metric x every code, in every group shape that contains the metric
	for _, m := range spec.V2Metrics {
		for ci := range m.Codes {
			for shape := 0; shape < 4; shape++ {
				hasT, hasE := shape&1 != 0, shape&2 != 0
				if (m.Level == spec.Temporal && !hasT) || (m.Level == spec.Environmental && !hasE) {
					continue
				}
				b, t, e := [6]int{1, 1, 1, 1, 1, 1}, [3]int{1, 1, 1}, [5]int{1, 1, 1, 1, 1}
				for i, mm := range spec.V2B() {
					if mm == m {
						b[i] = ci
					}
				}
				for i, mm := range spec.V2T() {
					if mm == m {
						t[i] = ci
					}
				}
				for i, mm := range spec.V2E() {
					if mm == m {
						e[i] = ci
					}
				}
				v := gen.V2FromIdx(b, hasT, t, hasE, e)
				lo := spec.Base
				if hasT {
					lo = spec.Temporal
				}
				if hasE {
					lo = spec.Environmental
				}
				for lv := lo; lv <= spec.Environmental; lv++ {
					f(2, lv, v, "sweep:v2-metric-code-shape")
				}
			}
		}
	}
	// v3: every move of a contiguous block of tokens of the canonical full vector, and every
	// order of the specification's sub-groups (base | temporal | requirements | modified
	// exploitability | modified scope | modified impact)
	{
		full := representatives(3)[4]
		canon := func(lv spec.Level) []spec.Tok {
			var t []spec.Tok
			for _, m := range spec.UpTo(spec.V3Metrics, lv) {
				v, _ := full.Get(m.Name)
				t = append(t, spec.Tok{Name: m.Name, Value: v})
			}
			return t
		}
		for _, lv := range []spec.Level{spec.Temporal, spec.Environmental} {
			toks := canon(lv)
			n := len(toks)
			for a := 0; a < n; a++ {
				for k := 1; a+k <= n && k <= 11; k++ {
					block := toks[a : a+k]
					rest := append(append([]spec.Tok(nil), toks[:a]...), toks[a+k:]...)
					for to := 0; to <= len(rest); to++ {
						if to == a {
							continue
						}
						moved := append(append(append([]spec.Tok(nil), rest[:to]...), block...), rest[to:]...)
						f(3, lv, spec.Vec{Ver: full.Ver, Toks: moved}, "sweep:v3-block-move")
					}
				}
			}
		}
		groups := [][]spec.Tok{canon(spec.Environmental)[0:8], canon(spec.Environmental)[8:11], canon(spec.Environmental)[11:14], canon(spec.Environmental)[14:18], canon(spec.Environmental)[18:19], canon(spec.Environmental)[19:22]}
		idx := []int{0, 1, 2, 3, 4, 5}
		var permGroups func(k int)
		permGroups = func(k int) {
			if k == len(idx) {
				var t []spec.Tok
				for _, g := range idx {
					t = append(t, groups[g]...)
				}
				f(3, spec.Environmental, spec.Vec{Ver: "3.0", Toks: t}, "sweep:v3-group-order")
				return
			}
			for i := k; i < len(idx); i++ {
				idx[k], idx[i] = idx[i], idx[k]
				permGroups(k + 1)
				idx[k], idx[i] = idx[i], idx[k]
			}
		}
		permGroups(0)
	}
	if thorough() {
		for _, rep := range representatives(3)[:4] {
			var baseToks, rest []spec.Tok
			for _, t := range rep.Toks {
				if m := spec.ByName(spec.V3Metrics, t.Name); m.Level == spec.Base {
					baseToks = append(baseToks, t)
				} else {
					rest = append(rest, t)
				}
			}
			lv := levelOfVec(3, rep)
			permute(baseToks, func(p []spec.Tok) {
				v := spec.Vec{Ver: rep.Ver, Toks: append(append([]spec.Tok(nil), p...), rest...)}
				f(3, lv, v, "sweep:v3-all-base-orders")
			})
		}
	}
}

func permute(a []spec.Tok, f func([]spec.Tok)) {
	var rec func(k int)
	rec = func(k int) {
		if k == len(a) {
			f(a)
			return
		}
		for i := k; i < len(a); i++ {
			a[k], a[i] = a[i], a[k]
			rec(k + 1)
			a[k], a[i] = a[i], a[k]
		}
	}
	rec(0)
}

// extraStage lets one property add a stage of its own to the shared driver below.
var extraStage func(c *ctx)

func vectorPropertyTest(t *testing.T, id string, check func(vecCase) string, rule string, assumptions []string, minLevel spec.Level) {
	c := begin(t, id)
	defer c.end()
	c.rec.F.Rule = rule
	c.rec.F.Assumptions = assumptions
	if extraStage != nil {
		extraStage(c)
	}
	nviol := 0
	i := 0
	reuse := id == "C09" || id == "C10"
	var priorPool3 []spec.Vec
	if reuse {
		r := gen.NewRng(uint64(seed)*31 + 7)
		for k := 0; k < 64; k++ {
			v := spec.Vec{Ver: spec.V3Versions[k%2]}
			for _, m := range spec.V3Metrics {
				codes := m.Codes
				if m.Level != spec.Base {
					codes = codes[1:]
				}
				v.Toks = append(v.Toks, spec.Tok{Name: m.Name, Value: codes[r.Intn(len(codes))]})
			}
			priorPool3 = append(priorPool3, v)
		}
		defer func() {
			c.rec.AddExtraInt("reused_decoder_second_decode_accepted", reuseAccepted)
			c.rec.AddExtraInt("reused_decoder_second_decode_refused", reuseRefused)
		}()
	}
	forEachSweepVector(func(ver int, lv spec.Level, v spec.Vec, label string) {
		i++
		if nviol > 0 || !mine(i) || lv < minLevel {
			return
		}
		cs := vecCase{Ver: ver, Level: int(lv), NilRecv: i%2 == 0, PreQuery: i%4 == 1, Input: v.String()}
		nt, cl := vecLabels(ver, v, lv)
		c.rec.Case("sweeps", cs.key(), nt, append(cl, label)...)
		if c.rec.SampleCount() < 4 && i%5003 == 0 {
			c.rec.Sample(cs)
		}
		evalEnum(c, "vector", cs, check, &nviol)
		if reuse && i%5 == 0 && nviol == 0 {
			// the same vector offered to a decoder object that has already decoded a fully
			// defined vector of the level (fixed, or hash-chosen values)
			var prior spec.Vec
			if ver == 3 {
				prior = spec.ProjectV3(representatives(3)[4], lv)
				if i%10 == 0 {
					prior = gen.V3FromIdx(spec.IdxV3(priorPool3[(i/10)%len(priorPool3)]), lv, true)
				}
			} else {
				prior = spec.ProjectV2(representatives(2)[4], lv)
			}
			cr := cs
			cr.NilRecv, cr.PreQuery, cr.Prior = false, false, prior.String()
			c.rec.Case("sweeps", cr.key(), true, "reused-decoder:after-a-successful-decode")
			evalEnum(c, "vector", cr, check, &nviol)
		}
	})
	nrapid := pick(320000, 3000000)
	if id == "C09" { // C09's cases are the most expensive (twins, related vectors) and it has the flood besides
		nrapid = pick(200000, 3000000)
	}
	c.rapidStage("rapid", nrapid, func(rt *rapid.T) {
		ver := rapid.SampledFrom([]int{2, 3}).Draw(rt, "version")
		lvs := []spec.Level{spec.Base, spec.Temporal, spec.Environmental}
		lv := rapid.SampledFrom(lvs[minLevel:]).Draw(rt, "decoder")
		var v spec.Vec
		if ver == 3 && rapid.IntRange(0, 2).Draw(rt, "full") == 0 {
			v = gen.FullV3(lv, 60).Draw(rt, "vector")
			v.Toks = rapid.Permutation(v.Toks).Draw(rt, "order")
		} else {
			v = gen.Valid(ver, lv).Draw(rt, "vector")
		}
		cs := vecCase{Ver: ver, Level: int(lv), NilRecv: rapid.Bool().Draw(rt, "nilrecv"), Input: v.String()}
		cs.PreQuery = !cs.NilRecv && rapid.IntRange(0, 3).Draw(rt, "prequery") == 0
		nt, cl := vecLabels(ver, v, lv)
		if cs.PreQuery {
			cl = append(cl, "decoder-queried-before-decode")
		}
		if reuse && rapid.IntRange(0, 5).Draw(rt, "reused") == 0 {
			var prior spec.Vec
			if ver == 3 {
				prior = gen.FullV3(lv, 85).Draw(rt, "prior")
			} else {
				prior = gen.Valid(2, lv).Draw(rt, "prior")
			}
			cs.NilRecv, cs.PreQuery, cs.Prior = false, false, prior.String()
			nt, cl = true, append(cl, "reused-decoder:after-a-successful-decode")
		}
		c.rec.Case("rapid", cs.key(), nt, append(cl, "rapid:decoder="+lv.String())...)
		if c.rec.SampleCount() < 10 {
			c.rec.Sample(cs)
		}
		evalCase(c, rt, "vector", cs, check)
	})
}

const reuseRule = " Re-used decoders (C09, C10): one sweep vector in five and one rapid case in six is offered to a decoder object that has already decoded a fully (85%) defined vector of the level successfully; a decoder may refuse that (the unchanged library does: see reused_decoder_second_decode_refused / _accepted), and then nothing is asserted; if it accepts, the returned object is checked like any other decoded object."

const sweepRule = "a quarter of the constructor-made decoders have every observer of every view called once before their single Decode. sweeps (deterministic, complete): every v3 metric x every code x every token position at every decoder covering it; all 2^14 subsets of the v3 optional metrics (values hash-chosen); every v2 metric x code in every group shape at every covering decoder; every move of a contiguous block of up to 11 tokens of a full v3 vector and all 720 orders of its six sub-groups; thorough: all 8! orders of the base tokens of 4 representative vectors. rapid: accepted vectors of both versions at a random covering decoder, constructor or nil receiver, random token order, omission and explicit X (v3), all four group shapes (v2). "

// floodCase: a vector decoded after other vectors were decoded by the same kind of decoder
// in the same process (whatever the library keeps between decodes must not leak into it).
type floodCase struct {
	Ver     int      `json:"cvss_version"`
	Level   int      `json:"decoder_level"`
	NilRecv bool     `json:"nil_receiver"`
	Earlier []string `json:"decoded_earlier"`
	Input   string   `json:"input"`
}

var checkC09Flood = register("C09/flood", func(c floodCase) string {
	for _, e := range c.Earlier {
		if c.Ver == 3 {
			decode3(spec.Level(c.Level), e, c.NilRecv)
		} else {
			decode2(spec.Level(c.Level), e, c.NilRecv)
		}
	}
	if m := checkC09(vecCase{Ver: c.Ver, Level: c.Level, NilRecv: c.NilRecv, Input: c.Input}); m != "" {
		return fmt.Sprintf("after %d earlier decode(s): %s", len(c.Earlier), m)
	}
	return ""
})

// quickVec builds a valid vector of the level without rapid (bulk stages): random version,
// random codes, optional metrics present with probability 1/2, tokens shuffled (v3).
func quickVec(r *gen.Rng, ver int, lv spec.Level) spec.Vec {
	var v spec.Vec
	if ver == 3 {
		v.Ver = spec.V3Versions[r.Intn(2)]
		for _, m := range spec.UpTo(spec.V3Metrics, lv) {
			if m.Level > spec.Base && r.Intn(2) == 0 {
				continue
			}
			v.Toks = append(v.Toks, spec.Tok{Name: m.Name, Value: m.Codes[r.Intn(len(m.Codes))]})
		}
		for i := len(v.Toks) - 1; i > 0; i-- {
			j := r.Intn(i + 1)
			v.Toks[i], v.Toks[j] = v.Toks[j], v.Toks[i]
		}
		return v
	}
	add := func(ms []*spec.Metric) {
		for _, m := range ms {
			v.Toks = append(v.Toks, spec.Tok{Name: m.Name, Value: m.Codes[r.Intn(len(m.Codes))]})
		}
	}
	add(spec.V2B())
	if lv >= spec.Temporal && r.Intn(2) == 0 {
		add(spec.V2T())
	}
	if lv >= spec.Environmental && r.Intn(2) == 0 {
		add(spec.V2E())
	}
	return v
}

// c09Flood: many distinct accepted vectors through each decoder of each version, nil
// receiver (3 of 4) and constructor, each compared with the canonical encoding of what it
// writes (cheap), the full field check following on any mismatch. A decoder that keeps
// anything keyed by less than the whole input shows here and nowhere else: the probability
// per decode is small, so the number of decodes is what counts.
func c09Flood(c *ctx) {
	per := int(pick(120000, 1500000))
	nviol := 0
	origin := map[string]string{} // canonical encoding -> the string that was decoded (for the replay file)
	r := gen.NewRng(uint64(seed)*7919 + uint64(shard) + 1)
	for _, ver := range []int{3, 2} {
		for _, lv := range []spec.Level{spec.Environmental, spec.Temporal, spec.Base} {
			n := per
			if lv != spec.Environmental {
				n = per / 4
			}
			clear(origin)
			for k := 0; k < n && nviol == 0; k++ {
				v := quickVec(r, ver, lv)
				in := v.String()
				nilRecv := k%4 != 0
				var enc, want string
				var err error
				if ver == 3 {
					o, e := decode3(lv, in, nilRecv)
					err = e
					if e == nil {
						switch lv {
						case spec.Base:
							enc, _ = o.B.Encode()
						case spec.Temporal:
							enc, _ = o.T.Encode()
						default:
							enc, _ = o.E.Encode()
						}
					}
					want = spec.CanonV3(v, lv)
				} else {
					o, e := decode2(lv, in, nilRecv)
					err = e
					if e == nil {
						switch lv {
						case spec.Base:
							enc, _ = o.B.Encode()
						case spec.Temporal:
							enc, _ = o.T.Encode()
						default:
							enc, _ = o.E.Encode()
						}
					}
					want = in
				}
				if err == nil && enc == want {
					if len(origin) < 400000 {
						origin[enc] = in
					}
					continue
				}
				// what came back instead tells which earlier vector to decode first on replay
				cs := floodCase{Ver: ver, Level: int(lv), NilRecv: nilRecv, Input: in}
				if prev, ok := origin[enc]; ok {
					cs.Earlier = []string{prev}
				} else if enc != "" {
					cs.Earlier = []string{enc}
				}
				evalEnum(c, "flood", cs, checkC09Flood, &nviol)
				if nviol == 0 { // not reproduced through the checker: report what was seen
					c.violation("flood", cs, fmt.Sprintf("decoding %q gave (%q, %v), canonical encoding %q", in, enc, err, want))
					nviol++
				}
			}
			c.rec.Bulk("decode-flood", int64(n), int64(n), map[string]int64{fmt.Sprintf("flood:v%d:%s", ver, lv): int64(n)})
		}
	}
}

func TestC09(t *testing.T) {
	extraStage = c09Flood
	defer func() { extraStage = nil }()
	vectorPropertyTest(t, "C09", checkC09, sweepRule+reuseRule+" Oracle: reference token map -> expected exported constant per field (read by reflection on the field name), unwritten optional metric = Not Defined (v3) / IsEmpty() of the group (v2); metamorphic twins (canonical order spelled out, canonical order with only defined metrics) must give an identical snapshot of fields, scores, severities and encodings at every level. Non-trivial = non-canonical presentation (v3) or at least one optional group (v2); distinct by hash of (version, decoder, receiver, input).",
		[]string{"library constants bound to codes by exported name; fields read by reflection on the exported field name"}, spec.Base)
}

// c10OptionalProduct: the complete product of the v2 optional metrics (100 temporal x 1,920
// environmental combinations, each group also absent: 194,021 vectors) behind two base
// vectors at the environmental decoder, and the temporal part at the temporal decoder:
// Encode() and String() must be byte-identical to the input (light comparison; the full
// check runs on a mismatch). The encodings differ in length (codes of one to three
// letters), which a value sweep of one metric at a time does not vary jointly.
func c10OptionalProduct(c *ctx) {
	nviol := 0
	var evals int64
	k := 0
	tN, eN := 100, 1920
	for bi, b := range [][6]int{{2, 2, 2, 2, 2, 2}, {0, 1, 0, 1, 0, 1}} {
		for ti := -1; ti < tN && nviol == 0; ti++ {
			var t [3]int
			if ti >= 0 {
				t = [3]int{ti % 5, ti / 5 % 5, ti / 25 % 4}
			}
			for ei := -1; ei < eN && nviol == 0; ei++ {
				k++
				if !mine(k) || (bi == 1 && !thorough() && (k/shards)%8 != 0) {
					continue
				}
				var e [5]int
				if ei >= 0 {
					e = [5]int{ei % 6, ei / 6 % 5, ei / 30 % 4, ei / 120 % 4, ei / 480 % 4}
				}
				in := gen.V2FromIdx(b, ti >= 0, t, ei >= 0, e).String()
				lv := spec.Environmental
				if ei < 0 && ti%2 == 0 {
					lv = spec.Temporal
				}
				evals++
				o, err := decode2(lv, in, k%3 == 0)
				if err == nil {
					var enc, str string
					var eerr error
					if lv == spec.Temporal {
						enc, eerr = o.T.Encode()
						str = o.T.String()
					} else {
						enc, eerr = o.E.Encode()
						str = o.E.String()
					}
					if eerr == nil && enc == in && str == in {
						continue
					}
				}
				evalEnum(c, "vector", vecCase{Ver: 2, Level: int(lv), NilRecv: k%3 == 0, Input: in}, checkC10, &nviol)
			}
		}
	}
	c.rec.Bulk("v2-optional-product", evals, evals, map[string]int64{"v2:optional-metric-product": evals})
}

func TestC10(t *testing.T) {
	extraStage = c10OptionalProduct
	defer func() { extraStage = nil }()
	vectorPropertyTest(t, "C10", checkC10, sweepRule+reuseRule+" Oracle: reference canonical encoder (v3: prefix, base in specification order, every temporal / environmental metric of the object's level spelled out; v2: byte-identical to the input); Encode() error must be nil; String() == Encode(); decoding the encoding with the same decoder gives an identical snapshot (fields, scores, severities, encodings). Non-trivial = input differs from its canonical form (v3) or carries an optional group (v2).",
		[]string{"reference canonical encoder written from the property statement"}, spec.Base)
}

// c14Complete: all 73,629 v2 base x temporal vectors at the environmental decoder, without
// and with a hash-chosen environmental group (views through the object versus independent
// decodes of the projections, both query orders).
func c14Complete(c *ctx) {
	nviol := 0
	var evals int64
	forEachV2BaseTemporal(func(i int, b [6]int, hasT bool, tt [3]int) {
		if nviol > 0 || !mine(i) {
			return
		}
		for _, withE := range []bool{false, true} {
			h := mix(uint64(seed), uint64(i))
			e := [5]int{int(h % 6), int((h >> 8) % 5), int((h >> 16) % 4), int((h >> 24) % 4), int((h >> 32) % 4)}
			cs := vecCase{Ver: 2, Level: 2, NilRecv: i%2 == 0, Input: gen.V2FromIdx(b, hasT, tt, withE, e).String()}
			evals++
			evalEnum(c, "vector", cs, checkC14, &nviol)
			if hasT && !withE {
				cs.Level = 1
				evals++
				evalEnum(c, "vector", cs, checkC14, &nviol)
			}
		}
	})
	c.rec.Bulk("v2-base-x-temporal-complete", evals, evals, map[string]int64{"v2-complete-enumeration": evals})
	if shard == 0 {
		c.rec.F.Exhaustive = append(c.rec.F.Exhaustive, "v2 base x (temporal + absent) (73,629 vectors) at the environmental decoder, with and without environmental group")
	}
}

func TestC14(t *testing.T) {
	extraStage = c14Complete
	defer func() { extraStage = nil }()
	vectorPropertyTest(t, "C14", checkC14, sweepRule+"Oracle: BaseMetrics() / TemporalMetrics() of the decoded object (and the base view of the temporal view) versus an independent NewBase / NewTemporal decode of the reference projection of the vector (v3: prefix plus the tokens of the lower level in written order; v2: cut at the group boundary): equal score, severity, encoding and encoding error; accessors non-nil; each case is evaluated in two query orders (lower views first / top-level object queried completely first). Additionally all 73,629 v2 base x temporal vectors are decoded at the environmental decoder without and with a hash-chosen environmental group (complete). Only temporal and environmental decoders are exercised. Non-trivial as C09.",
		[]string{"projection computed by the reference tokenizer"}, spec.Temporal)
}
