package props

import (
	"fmt"
	"testing"

	m3 "github.com/goark/go-cvss/v3/metric"
	"github.com/goark/go-cvss/v3/report/names"
	"golang.org/x/text/language"
	"pgregory.net/rapid"
	"verif/harness/spec"
)

// C18 — localised names are total, unambiguous and fall back to English.

type nameAPI struct {
	metric  string // vector name of the metric, or "Severity" / "Base" / "Temporal" / "Environmental"
	title   func(language.Tag) string
	valueOf func(int64, language.Tag) string // nil for the three group titles
	header  func(language.Tag) string        // column header function of the group titles
	nvalues int                              // defined values are 1..nvalues
}

func nv[T ~int](f func(T, language.Tag) string) func(int64, language.Tag) string {
	return func(v int64, l language.Tag) string { return f(T(v), l) }
}

var nameAPIs = []nameAPI{
	{metric: "AV", title: names.AttackVector, valueOf: nv(names.AVValueOf), nvalues: 4},
	{metric: "AC", title: names.AttackComplexity, valueOf: nv(names.ACValueOf), nvalues: 2},
	{metric: "PR", title: names.PrivilegesRequired, valueOf: nv(names.PRValueOf), nvalues: 3},
	{metric: "UI", title: names.UserInteraction, valueOf: nv(names.UIValueOf), nvalues: 2},
	{metric: "S", title: names.Scope, valueOf: nv(names.SValueOf), nvalues: 2},
	{metric: "C", title: names.ConfidentialityImpact, valueOf: nv(names.CValueOf), nvalues: 3},
	{metric: "I", title: names.IntegrityImpact, valueOf: nv(names.IValueOf), nvalues: 3},
	{metric: "A", title: names.AvailabilityImpact, valueOf: nv(names.AValueOf), nvalues: 3},
	{metric: "E", title: names.Exploitability, valueOf: nv(names.EValueOf), nvalues: 5},
	{metric: "RL", title: names.RemediationLevel, valueOf: nv(names.RLValueOf), nvalues: 5},
	{metric: "RC", title: names.ReportConfidence, valueOf: nv(names.RCValueOf), nvalues: 4},
	{metric: "CR", title: names.ConfidentialityRequirement, valueOf: nv(names.CRValueOf), nvalues: 4},
	{metric: "IR", title: names.IntegrityRequirement, valueOf: nv(names.IRValueOf), nvalues: 4},
	{metric: "AR", title: names.AvailabilityRequirement, valueOf: nv(names.ARValueOf), nvalues: 4},
	{metric: "MAV", title: names.ModifiedAttackVector, valueOf: nv(names.MAVValueOf), nvalues: 5},
	{metric: "MAC", title: names.ModifiedAttackComplexity, valueOf: nv(names.MACValueOf), nvalues: 3},
	{metric: "MPR", title: names.ModifiedPrivilegesRequired, valueOf: nv(names.MPRValueOf), nvalues: 4},
	{metric: "MUI", title: names.ModifiedUserInteraction, valueOf: nv(names.MUIValueOf), nvalues: 3},
	{metric: "MS", title: names.ModifiedScope, valueOf: nv(names.MSValueOf), nvalues: 3},
	{metric: "MC", title: names.ModifiedConfidentialityImpact, valueOf: nv(names.MCValueOf), nvalues: 4},
	{metric: "MI", title: names.ModifiedIntegrityImpact, valueOf: nv(names.MIValueOf), nvalues: 4},
	{metric: "MA", title: names.ModifiedAvailabilityImpact, valueOf: nv(names.MAValueOf), nvalues: 4},
	{metric: "Severity", title: names.Severity, valueOf: nv(names.SeverityValueOf), nvalues: 5},
	{metric: "Base", title: names.BaseMetrics, header: names.BaseMetricsValueOf},
	{metric: "Temporal", title: names.TemporalMetrics, header: names.TemporalMetricsValueOf},
	{metric: "Environmental", title: names.EnvironmentalMetrics, header: names.EnvironmentalMetricsValueOf},
}

func nameAPIOf(metric string) *nameAPI {
	for i := range nameAPIs {
		if nameAPIs[i].metric == metric {
			return &nameAPIs[i]
		}
	}
	return nil
}

const (
	unknownEn = "Unknown"
	unknownJa = "未定義"
)

// rawBase is the language subtag as written (no inference from region or script).
func rawBase(t language.Tag) string {
	b, _, _ := t.Raw()
	return b.String()
}

// nameCase: one (function, value, language tag) point.
type nameCase struct {
	Metric string `json:"metric"`
	Value  int    `json:"value"`
	Tag    string `json:"language_tag"`
	// First: a tag for which names were requested before anything else in the process (what
	// it returns is not asserted — most of these tags are left unspecified — but having
	// served it must not change what later tags get)
	First string `json:"tag_served_first_in_process,omitempty"`
}

// coldTags: tags a process may meet first: variants of en / ja (unspecified content), tags
// without a language, private-use and grandfathered forms.
var coldTags = []string{"ja-Latn", "ja-Hira", "ja-Kana", "ja-JP", "ja-u-ca-japanese", "ja-x-private", "en-US", "en-Dsrt", "en-u-nu-latn", "und-JP", "und-Jpan", "mul", "zxx", "i-klingon", "x-private", "art-x-foo", "fr-Latn-CA", "zh-Hant-TW"}

var servedFirst = map[string]bool{}

func serveFirst(tag string) {
	if tag == "" || servedFirst[tag] {
		return
	}
	servedFirst[tag] = true
	tg := language.Make(tag)
	for _, a := range nameAPIs {
		a.title(tg)
		if a.header != nil {
			a.header(tg)
		}
		if a.valueOf != nil {
			for v := int64(0); v <= int64(a.nvalues)+1; v++ {
				a.valueOf(v, tg)
			}
		}
	}
}

var checkC18 = register("C18/name", func(c nameCase) string {
	a := nameAPIOf(c.Metric)
	if a == nil {
		return ""
	}
	serveFirst(c.First)
	tag := language.Make(c.Tag)
	base := rawBase(tag)
	exactEn, exactJa := tag == language.English, tag == language.Japanese
	if (base == "en" && !exactEn) || (base == "ja" && !exactJa) {
		return "" // regional variants of English and Japanese are left unspecified
	}
	en, ja := language.English, language.Japanese
	// ---- title (and column header) --------------------------------------------------------
	for _, f := range []struct {
		what string
		fn   func(language.Tag) string
	}{{"title", a.title}, {"column header", a.header}} {
		if f.fn == nil {
			continue
		}
		if f.fn(en) == "" || f.fn(ja) == "" {
			return fmt.Sprintf("%s %s has an empty English or Japanese name", c.Metric, f.what)
		}
		if !exactEn && !exactJa {
			if got := f.fn(tag); got != f.fn(en) {
				return fmt.Sprintf("%s %s for language %q is %q, the English name is %q", c.Metric, f.what, c.Tag, got, f.fn(en))
			}
		}
	}
	if a.valueOf == nil {
		return ""
	}
	// ---- value name -------------------------------------------------------------------------
	v := int64(c.Value)
	defined := v >= 1 && v <= int64(a.nvalues)
	nameEn, nameJa := a.valueOf(v, en), a.valueOf(v, ja)
	if defined {
		if nameEn == "" || nameJa == "" {
			return fmt.Sprintf("%s value %d has an empty English (%q) or Japanese (%q) name", c.Metric, v, nameEn, nameJa)
		}
		for w := int64(1); w <= int64(a.nvalues); w++ {
			if w != v && (a.valueOf(w, en) == nameEn || a.valueOf(w, ja) == nameJa) {
				return fmt.Sprintf("%s values %d and %d share a display name (%q/%q vs %q/%q)", c.Metric, v, w, nameEn, nameJa, a.valueOf(w, en), a.valueOf(w, ja))
			}
		}
		// a Modified metric's value carries the base metric value's name (same code)
		if m := spec.ByName(spec.V3Metrics, c.Metric); m != nil && m.BaseOf != "" && v >= 2 {
			b := nameAPIOf(m.BaseOf)
			// constants of both enumerations follow the same order after Not Defined;
			// match by code letter through the reference tables to stay independent of it
			code := libCode3(c.Metric, v)
			bv := libConst3(m.BaseOf, code)
			if bv == 0 {
				return fmt.Sprintf("harness: cannot match %s value %d to a %s value", c.Metric, v, m.BaseOf)
			}
			if b.valueOf(bv, en) != nameEn || b.valueOf(bv, ja) != nameJa {
				return fmt.Sprintf("%s:%s is named %q/%q but %s:%s is named %q/%q", c.Metric, code, nameEn, nameJa, m.BaseOf, code, b.valueOf(bv, en), b.valueOf(bv, ja))
			}
		}
	} else {
		if nameEn != unknownEn || nameJa != unknownJa {
			return fmt.Sprintf("%s value %d is outside the metric's range but is named %q / %q instead of %q / %q", c.Metric, v, nameEn, nameJa, unknownEn, unknownJa)
		}
	}
	if !exactEn && !exactJa {
		if got := a.valueOf(v, tag); got != nameEn {
			return fmt.Sprintf("%s value %d for language %q is %q, the English name is %q", c.Metric, v, c.Tag, got, nameEn)
		}
	}
	return ""
})

// libCode3 maps a library constant value of a v3 metric back to its specification code
// through the name binding (bind), libConst3 the other way round.
func libCode3(metric string, v int64) string {
	m := spec.ByName(spec.V3Metrics, metric)
	for i, code := range m.Codes {
		if constOf(3, metric, i) == v {
			return code
		}
	}
	return ""
}

func libConst3(metric, code string) int64 {
	m := spec.ByName(spec.V3Metrics, metric)
	if i := m.Index(code); i >= 0 {
		return constOf(3, metric, i)
	}
	return 0
}

var (
	tagBases   = []string{"fr", "de", "zh", "ko", "es", "ru", "ar", "pt", "it", "nl", "sv", "tr", "he", "hi", "th", "vi", "pl", "uk", "cs", "el", "und", "mul", "jv", "enm", "eo", "jbo", "fil"}
	tagScripts = []string{"", "Latn", "Cyrl", "Hans", "Hant", "Jpan", "Kana", "Arab"}
	tagRegions = []string{"", "US", "JP", "FR", "GB", "CN", "001", "419", "DE"}
)

// fixedTags: exact en, ja, und and 60 other tags.
func fixedTags() []string {
	tags := []string{"en", "ja", "und"}
	r := 0
	for _, b := range tagBases {
		tags = append(tags, b)
		s := tagScripts[r%len(tagScripts)]
		g := tagRegions[(r/2)%len(tagRegions)]
		t := b
		if s != "" {
			t += "-" + s
		}
		if g != "" {
			t += "-" + g
		}
		if t != b {
			tags = append(tags, t)
		}
		r += 3
	}
	tags = append(tags, "und-JP", "und-Jpan", "zh-Hant-JP", "ko-JP", "fr-US", "de-u-co-phonebk", "x-private", "art-x-klingon", "i-default")
	return tags
}

func severityLabel(v int64) string { return m3.Severity(v).String() }

func TestC18(t *testing.T) {
	c := begin(t, "C18")
	defer c.end()
	tags := fixedTags()
	c.rec.F.Rule = fmt.Sprintf("complete box: all 26 title functions, 3 column-header functions and 23 value-name functions x every enumeration integer in [-8, max+8] x %d language tags (exact en, ja, und and tags built from 27 base languages x scripts x regions, private-use and grandfathered tags; tags whose language subtag is en or ja but which are not exactly en / ja are skipped as unspecified); rapid: full-range integers and composed tags. Oracle per point: non-empty English and Japanese names for titles and defined values, pairwise distinct value names per language, Modified value name == base value name for the same code (matched by code letter), out-of-range and zero values named Unknown / 未定義, any other language exactly the English string. Non-trivial = a point with a tag other than en/ja/und or a value outside the defined range; distinct by hash of (function, value, tag).", len(tags))
	c.rec.F.Assumptions = []string{"the literals Unknown / 未定義 are the ones the repository's own name tests pin", "language subtag taken from Tag.Raw() (no inference from region or script)"}
	// odd shards: one of the cold tags is served before anything else in the process
	first := ""
	if shard%2 == 1 {
		first = coldTags[(shard/2+int(seed))%len(coldTags)]
		c.rec.SetExtra("tag_served_first_in_process", first)
	}
	nviol := 0
	i := 0
	for _, a := range nameAPIs {
		lo, hi := -8, a.nvalues+8
		if a.valueOf == nil {
			lo, hi = 0, 0
		}
		for v := lo; v <= hi; v++ {
			for _, tg := range tags {
				i++
				if nviol > 0 || !mine(i) {
					continue
				}
				cs := nameCase{Metric: a.metric, Value: v, Tag: tg, First: first}
				nt := (tg != "en" && tg != "ja" && tg != "und") || v < 1 || v > a.nvalues
				cl := "tag:other"
				if tg == "en" || tg == "ja" || tg == "und" {
					cl = "tag:" + tg
				}
				c.rec.Case("box", fmt.Sprintf("%s|%d|%s", a.metric, v, tg), nt, cl)
				if c.rec.SampleCount() < 4 && i%7001 == 0 {
					c.rec.Sample(cs)
				}
				evalEnum(c, "name", cs, checkC18, &nviol)
			}
		}
	}
	if shard == 0 {
		c.rec.F.Exhaustive = append(c.rec.F.Exhaustive, fmt.Sprintf("52 name functions x integers in [-8, max+8] x %d tags", len(tags)))
	}
	c.rapidStage("rapid", pick(80000, 1000000), func(rt *rapid.T) {
		a := rapid.SampledFrom(nameAPIs).Draw(rt, "function")
		v := rapid.IntRange(-3, a.nvalues+3).Draw(rt, "value")
		if rapid.IntRange(0, 4).Draw(rt, "wide") == 0 {
			v = rapid.Int().Draw(rt, "anyvalue")
		}
		tg := rapid.SampledFrom(tagBases).Draw(rt, "base")
		if s := rapid.SampledFrom(tagScripts).Draw(rt, "script"); s != "" {
			tg += "-" + s
		}
		if g := rapid.SampledFrom(tagRegions).Draw(rt, "region"); g != "" {
			tg += "-" + g
		}
		switch rapid.IntRange(0, 9).Draw(rt, "special") {
		case 0:
			tg = "en"
		case 1:
			tg = "ja"
		case 2:
			tg = rapid.StringMatching(`[a-z]{2,3}(-[A-Z]{2})?`).Draw(rt, "randomtag")
		}
		cs := nameCase{Metric: a.metric, Value: v, Tag: tg, First: first}
		c.rec.Case("rapid", fmt.Sprintf("%s|%d|%s", a.metric, v, tg), (tg != "en" && tg != "ja") || v < 1 || v > a.nvalues)
		evalCase(c, rt, "name", cs, checkC18)
	})
}
