package props

import (
	"encoding/json"
	"fmt"
	"io"
	"os"
	"path/filepath"
	"runtime"
	"sort"
	"strings"
	"sync"
	"testing"

	"pgregory.net/rapid"
	"verif/harness/gen"
	"verif/harness/spec"
)

// C16 — concurrent use is data-race free and equals sequential use. The test binary is
// built with -race; the race runtime logs to VERIF_RACE_LOG.<pid>, whose growth during a
// workload is the race oracle.

type poolEntry struct {
	Ver   int    `json:"cvss_version"`
	Level int    `json:"decoder_level"`
	Input string `json:"input"`
	// Assign: exported fields assigned on the shared object after its Decode and before any
	// goroutine starts (the object is then only read). FieldBuilt: the shared object is a
	// constructor result with every field assigned, never decoded.
	Assign     []op `json:"assigned_before_sharing,omitempty"`
	FieldBuilt bool `json:"field_built,omitempty"`
}

type wop struct {
	Kind  string `json:"op"`              // decode | query | report | export | hammer
	Count int    `json:"count,omitempty"` // hammer: number of top-level Score() calls, alternating over all shared objects starting at pool_index
	Idx   int    `json:"pool_index"`      // which pool entry (decode: decoded into an own object; others: the shared decoded object)
	Obs   string `json:"obs,omitempty"`   // query
	Lang  string `json:"lang,omitempty"`
	Tpl   string `json:"template,omitempty"`
	Yield bool   `json:"yield,omitempty"` // runtime.Gosched() before the operation
	Hold  bool   `json:"hold,omitempty"`  // export: read the returned reader only after every goroutine has finished its operations
}

type workload struct {
	Pool       []poolEntry `json:"pool"`
	Goroutines [][]wop     `json:"goroutines"`
	Procs      int         `json:"gomaxprocs"`
	// NoShared: no object is decoded before the goroutines start (cold-start decode storm);
	// query / report / export operations are then not applicable.
	NoShared bool `json:"no_shared_objects,omitempty"`
}

func raceLogSize() int64 {
	prefix := os.Getenv("VERIF_RACE_LOG")
	if prefix == "" {
		return 0
	}
	files, _ := filepath.Glob(prefix + ".*")
	var n int64
	for _, f := range files {
		if st, err := os.Stat(f); err == nil {
			n += st.Size()
		}
	}
	return n
}

func raceLogTail() string {
	prefix := os.Getenv("VERIF_RACE_LOG")
	files, _ := filepath.Glob(prefix + ".*")
	var b strings.Builder
	for _, f := range files {
		if data, err := os.ReadFile(f); err == nil {
			b.Write(data)
		}
	}
	return firstLines(b.String(), 30)
}

func decodeEntry(e poolEntry) (subject, error) {
	lv := spec.Level(((e.Level % 3) + 3) % 3)
	if e.Ver == 3 {
		o, err := decode3(lv, e.Input, false)
		return subject{ver: 3, o3: o}, err
	}
	o, err := decode2(lv, e.Input, false)
	return subject{ver: 2, o2: o}, err
}

// runOp executes one operation; shared[i] is the pre-decoded object of pool entry i (nil
// subject when the entry does not decode).
func runOp(w workload, shared []*subject, o wop) string {
	r, pending := runOpHold(w, shared, o)
	if pending != nil {
		b, _ := io.ReadAll(pending)
		return string(b)
	}
	return r
}

// runOpHold is runOp that hands back the unread reader of a held export.
func runOpHold(w workload, shared []*subject, o wop) (string, io.Reader) {
	if o.Kind == "export" && o.Hold && len(w.Pool) > 0 {
		i := ((o.Idx % len(w.Pool)) + len(w.Pool)) % len(w.Pool)
		if shared[i] == nil || shared[i].ver != 3 {
			return "n/a", nil
		}
		ex, ok := shared[i].reportOf(o.Lang).(exporter)
		if !ok {
			return "n/a", nil
		}
		var r io.Reader
		var err error
		if len(o.Tpl)%2 == 1 { // every other template goes through the reader entry point
			r, err = ex.ExportWith(strings.NewReader(o.Tpl))
		} else {
			r, err = ex.ExportWithString(o.Tpl)
		}
		if err != nil {
			return "error:" + errStr(err), nil
		}
		return "", r
	}
	return runOpPlain(w, shared, o), nil
}

func runOpPlain(w workload, shared []*subject, o wop) string {
	if len(w.Pool) == 0 {
		return ""
	}
	i := ((o.Idx % len(w.Pool)) + len(w.Pool)) % len(w.Pool)
	switch o.Kind {
	case "decode":
		s, err := decodeEntry(w.Pool[i])
		if err != nil {
			return "error:" + errStr(err)
		}
		sn := s.snap()
		return fmt.Sprintf("%v|%v", sn.Fields, sn.Views)
	case "hammer-op":
		// the operation named by Obs (export | report | decode | query) repeated Count times
		// in a tight loop; the result is the set of distinct answers (one, sequentially)
		n := o.Count
		if n < 0 || n > 1000000 {
			n = 0
		}
		inner := o
		inner.Kind, inner.Obs = o.Obs, "score"
		if inner.Kind == "hammer" || inner.Kind == "hammer-op" {
			return ""
		}
		set := map[string]bool{}
		for r := 0; r < n; r++ {
			set[runOpPlain(w, shared, inner)] = true
		}
		var vals []string
		for v := range set {
			vals = append(vals, v)
		}
		sort.Strings(vals)
		return fmt.Sprintf("%d distinct: %s", len(vals), trunc(strings.Join(vals, " || ")))
	case "hammer":
		// a tight loop of top-level Score() calls alternating over the shared objects; the
		// result is the set of distinct scores each object answered (one each, sequentially)
		seen := make([]map[float64]bool, len(shared))
		fns := make([]func() float64, len(shared))
		for k, sh := range shared {
			if sh != nil {
				fns[k] = sh.views()[0].score
				seen[k] = map[float64]bool{}
			}
		}
		n := o.Count
		if n < 0 || n > 1000000 {
			n = 0
		}
		for r := 0; r < n; r++ {
			k := (i + r) % len(shared)
			if fns[k] != nil {
				seen[k][fns[k]()] = true
			}
		}
		var parts []string
		for k := range shared {
			var vals []float64
			for v := range seen[k] {
				vals = append(vals, v)
			}
			sort.Float64s(vals)
			parts = append(parts, fmt.Sprint(vals))
		}
		return strings.Join(parts, ";")
	case "query":
		if shared[i] == nil {
			return "n/a"
		}
		vs := shared[i].views()
		return observe(vs[0], o.Obs) + "|" + observe(vs[len(vs)-1], o.Obs)
	case "report":
		if shared[i] == nil || shared[i].ver != 3 {
			return "n/a"
		}
		b, _ := json.Marshal(shared[i].reportOf(o.Lang)) // embedded report pointers are flattened
		return string(b)
	case "export":
		if shared[i] == nil || shared[i].ver != 3 {
			return "n/a"
		}
		ex, ok := shared[i].reportOf(o.Lang).(exporter)
		if !ok {
			return "n/a"
		}
		var r io.Reader
		var err error
		if len(o.Tpl)%2 == 1 {
			r, err = ex.ExportWith(strings.NewReader(o.Tpl))
		} else {
			r, err = ex.ExportWithString(o.Tpl)
		}
		if err != nil {
			return "error:" + errStr(err)
		}
		b, _ := io.ReadAll(r)
		return string(b)
	}
	return ""
}

// currentCase records the workload about to run, so that the driver can turn a process
// killed by the runtime (e.g. "fatal error: concurrent map writes") into a replay file.
func currentCase(w workload) {
	if path := os.Getenv("VERIF_CURRENT_CASE"); path != "" {
		if b, err := json.Marshal(w); err == nil {
			os.WriteFile(path, b, 0o644)
		}
	}
}

var checkC16 = register("C16/workload", func(w workload) string {
	if len(w.Pool) == 0 || len(w.Goroutines) == 0 {
		return ""
	}
	currentCase(w)
	before := raceLogSize()
	shared := make([]*subject, len(w.Pool))
	if !w.NoShared {
		for i, e := range w.Pool {
			var s subject
			var err error
			if e.FieldBuilt {
				var ok bool
				s, ok = makeSubjectFieldBuilt(opsCase{Ver: e.Ver, Level: ((e.Level % 3) + 3) % 3, Input: e.Input})
				if !ok {
					continue
				}
			} else if s, err = decodeEntry(e); err != nil {
				continue
			}
			for _, as := range e.Assign {
				if val, ok := fieldValue(e.Ver, as.Field, as.Index); ok {
					s.setField(as.Field, val)
				}
			}
			sp := s
			shared[i] = &sp
		}
	}
	procs := w.Procs
	if procs < 1 || procs > 64 {
		procs = 4
	}
	old := runtime.GOMAXPROCS(procs)
	defer runtime.GOMAXPROCS(old)
	// ---- concurrent phase first: nothing but Decode has touched the shared objects, and
	// (in the first workload of a process) nothing has warmed lazily initialised state
	got := make([][]string, len(w.Goroutines))
	var wg, opsDone sync.WaitGroup
	start := make(chan struct{})
	for g, ops := range w.Goroutines {
		got[g] = make([]string, len(ops))
		wg.Add(1)
		opsDone.Add(1)
		go func(g int, ops []wop) {
			defer wg.Done()
			<-start
			held := map[int]io.Reader{}
			for k, o := range ops {
				if o.Yield {
					runtime.Gosched()
				}
				got[g][k] = guard(func() string {
					r, pending := runOpHold(w, shared, o)
					if pending != nil {
						held[k] = pending
					}
					return r
				})
			}
			// held export readers are consumed only after every goroutine has finished
			opsDone.Done()
			opsDone.Wait()
			for k, r := range held {
				b, _ := io.ReadAll(r)
				got[g][k] = string(b)
			}
		}(g, ops)
	}
	close(start)
	wg.Wait()
	if after := raceLogSize(); after > before {
		return "the Go race detector reported a data race during the concurrent phase:\n" + raceLogTail()
	}
	// ---- sequential reference afterwards, on the same shared objects (queries do not modify)
	for g, ops := range w.Goroutines {
		for k, o := range ops {
			so := o
			if so.Kind == "hammer" && so.Count > 2*len(shared) {
				so.Count = 2 * len(shared) // sequentially every call of an object answers the same
			}
			if so.Kind == "hammer-op" && so.Count > 2 {
				so.Count = 2
			}
			if want := runOp(w, shared, so); got[g][k] != want {
				return fmt.Sprintf("goroutine %d op %d (%+v): concurrent result %q differs from the sequential result %q", g, k, o, trunc(got[g][k]), trunc(want))
			}
		}
	}
	return ""
})

// c16Templates: plain, escaping, invalid, and templates that define the same block name
// with different bodies or call a block only another text defines (a template set shared
// between exports would make their output depend on which other texts were parsed).
var c16Templates = []string{"{{.Vector}} {{.SeverityValue}} ({{.BaseScore}})", "{{.AVName}}: {{.AVValue | html}}", "{{.Nope}}", "{{",
	"{{define \"a\"}}[{{.}}]{{end}}{{template \"a\" .Vector}}", "{{define \"a\"}}<{{.}}>{{end}}{{template \"a\" .Version}}", "{{template \"a\" .BaseScore}}",
	"{{block \"a\" .}}({{.Version}}){{end}}", ""}

// c16Langs: exact, regional, script and unrelated tags (results are only compared between
// the concurrent and the sequential run, so unspecified tags are fine here).
var c16Langs = []string{"en", "ja", "fr", "en-US", "ja-JP", "en-GB", "ja-Jpan-JP", "zh-Hant", "und", "de-CH", "ko-Jpan", "und-JP"}

// storm builds the cold-start workload run first in every process: 16 goroutines issue the
// same operations at the same time before anything else has touched the library. kind
// selects which part of the API meets its first use concurrently:
//
//	0 decode storm (no object decoded beforehand; valid and invalid vectors of all levels)
//	1 query storm on shared objects (every observer, v3 and v2)
//	2 report storm (en / ja / fr) on shared objects
//	3 export storm (several templates, valid and invalid) on shared objects
func storm(kind int) workload {
	w := workload{Procs: 16, NoShared: kind == 0, Pool: []poolEntry{
		{Ver: 3, Level: 2, Input: "CVSS:3.1/AV:A/AC:H/PR:L/UI:N/S:C/C:L/I:H/A:L/E:P/RL:O/RC:U/CR:L/IR:M/AR:L/MAV:P/MAC:L/MPR:L/MUI:R/MS:C/MC:H/MI:H/MA:H"},
		{Ver: 2, Level: 2, Input: "AV:N/AC:L/Au:N/C:P/I:P/A:C/E:F/RL:OF/RC:C/CDP:H/TD:H/CR:M/IR:M/AR:H"},
		{Ver: 3, Level: 0, Input: "CVSS:3.0/AV:N/AC:L/PR:N/UI:N/S:U/C:H/I:H/A:H"},
		{Ver: 3, Level: 1, Input: "CVSS:3.1/S:U/AV:N/AC:L/PR:H/UI:N/C:L/I:L/A:N/E:F/RL:X"},
		{Ver: 2, Level: 1, Input: "AV:L/AC:H/Au:M/C:N/I:N/A:P/E:POC/RL:TF/RC:UR"},
		{Ver: 2, Level: 0, Input: "AV:A/AC:M/Au:S/C:C/I:C/A:C"},
		{Ver: 3, Level: 1, Input: "CVSS:3.1/AV:N/AC:L/PR:N/UI:N/S:U/C:H/I:H/A:H/E:X/RL:BAD"},
		{Ver: 3, Level: 2, Input: "CVSS:3.2/AV:N"},
		{Ver: 3, Level: 0, Input: "CVSS:4.0/AV:N/AC:L/PR:N/UI:N/S:U/C:H/I:H/A:H"},
		{Ver: 3, Level: 1, Input: "CVSS:2.0/AV:N/AC:L/PR:N/UI:N/S:U/C:H/I:H/A:H"},
		{Ver: 2, Level: 2, Input: "AV:N/AC:L/Au:N/C:P/I:P/A:C/RC:C/RL:U/E:H"},
		{Ver: 2, Level: 0, Input: "AV:N/AC:L/Au:N/C:P/I:P/ZZ:1"},
	}}
	if kind == 1 { // the query storm meets objects whose fields were assigned after / instead of Decode
		w.Pool[0].Assign = []op{{Kind: "set", Field: "AV", Index: 2}, {Kind: "set", Field: "MS", Index: 1}, {Kind: "set", Field: "E", Index: 1}}
		w.Pool[1].Assign = []op{{Kind: "set", Field: "AC", Index: 0}, {Kind: "set", Field: "CDP", Index: 2}}
		w.Pool[2].FieldBuilt = true
		w.Pool[3].Assign = []op{{Kind: "set", Field: "RL", Index: 2}}
	}
	tpls := c16Templates
	for g := 0; g < 16; g++ {
		var ops []wop
		switch kind {
		case 0:
			for i := range w.Pool {
				ops = append(ops, wop{Kind: "decode", Idx: i})
			}
		case 1:
			for i := 0; i < 6; i++ {
				for _, obs := range []string{"score", "severity", "geterror", "encode", "string"} {
					ops = append(ops, wop{Kind: "query", Idx: i, Obs: obs})
				}
			}
		case 2:
			for _, lg := range c16Langs {
				for _, i := range []int{0, 2, 3} {
					ops = append(ops, wop{Kind: "report", Idx: i, Lang: lg})
				}
			}
		default:
			for _, tp := range tpls {
				for _, i := range []int{0, 2, 3} {
					ops = append(ops, wop{Kind: "export", Idx: i + g%2, Lang: "ja", Tpl: tp, Hold: true})
				}
			}
		}
		w.Goroutines = append(w.Goroutines, ops)
	}
	return w
}

func trunc(s string) string {
	if len(s) > 200 {
		return s[:200] + "…"
	}
	return s
}

func TestC16(t *testing.T) {
	c := begin(t, "C16")
	defer c.end()
	c.rec.F.Rule = "rapid workloads: a pool of 1-6 vectors (valid and invalid, both versions, all decoder levels), 2-16 goroutines with up to 50 operations each — decode a pool vector into an own object and observe it completely, query a shared object — decoded, decoded and then assigned fields, or built by field assignment alone; only read once the goroutines run — (Score, Severity, GetError, Encode, String at the top and base views), build a localised report from a shared object, export it with a template — released together on a barrier under GOMAXPROCS in {2, 4, 16} with generated runtime.Gosched() points. Oracle: the race detector's log must not grow during the workload (binary built with -race), and every operation's result must equal the result of the same operation executed sequentially beforehand. Non-trivial = at least two goroutines query the same shared object and at least one exports a report concurrently; distinct by hash of the workload."
	c.rec.F.Assumptions = []string{"schedules are sampled, not enumerated; the race detector reports happens-before races whenever both accesses execute, independent of the observed order", "race reports are detected through the race runtime's log file (GORACE log_path)"}
	if os.Getenv("VERIF_RACE_LOG") == "" {
		c.rec.SetExtra("warning", "VERIF_RACE_LOG not set: race reports are only visible through the test binary's exit status")
	}
	// cold start: the first workload of this process (alternating kinds across shards)
	{
		nviol := 0
		kind := shard % 4
		w := storm(kind)
		c.rec.Case("cold-start-storm", fmt.Sprintf("storm|%d|%d", kind, shard), true, fmt.Sprintf("storm:kind=%d(%s)", kind, []string{"decode", "query", "report", "export"}[kind]))
		if shard < 4 {
			c.rec.Sample(map[string]any{"cold_start_storm": []string{"decode", "query", "report", "export"}[kind], "goroutines": 16, "first_goroutine_ops": w.Goroutines[0]})
		}
		evalEnum(c, "workload", w, checkC16, &nviol)
	}
	// ---- pair hammer: two shared scope-changed environmental objects whose modified impact
	// sub-scores differ, scored alternately by 16 goroutines. One representative vector per
	// distinct sub-score value and version; every unordered pair (4,422 workloads; each goroutine makes 400 (quick) / 20,000 (thorough) Score() calls in a tight loop and reports the set of distinct answers per object). State shared *between objects* inside the scoring arithmetic (a memo of
	// an expensive term, a scratch variable) is only disturbed when two different arguments
	// meet, which random pools of a few vectors almost never arrange.
	{
		nviol := 0
		var evals int64
		imp := []float64{0.56, 0.22, 0}
		req := []float64{1.5, 1.0, 0.5}
		ic, rc := []string{"H", "L", "N"}, []string{"H", "M", "L"}
		for _, ver := range []string{"3.1", "3.0"} {
			seen := map[int64]bool{}
			var reps []string
			for a := 0; a < 729; a++ {
				d := [6]int{a % 3, a / 3 % 3, a / 9 % 3, a / 27 % 3, a / 81 % 3, a / 243 % 3}
				miss := 1 - (1-imp[d[0]]*req[d[3]])*(1-imp[d[1]]*req[d[4]])*(1-imp[d[2]]*req[d[5]])
				if miss > 0.915 {
					miss = 0.915
				}
				key := int64(miss*1e9 + 0.5)
				if miss <= 0 || seen[key] {
					continue
				}
				seen[key] = true
				reps = append(reps, fmt.Sprintf("CVSS:%s/AV:N/AC:L/PR:N/UI:N/S:C/C:%s/I:%s/A:%s/CR:%s/IR:%s/AR:%s", ver, ic[d[0]], ic[d[1]], ic[d[2]], rc[d[3]], rc[d[4]], rc[d[5]]))
			}
			k := 0
			for i := 0; i < len(reps) && nviol == 0; i++ {
				for j := i + 1; j < len(reps) && nviol == 0; j++ {
					k++
					if !mine(k) {
						continue
					}
					w := workload{Procs: 16, Pool: []poolEntry{{Ver: 3, Level: 2, Input: reps[i]}, {Ver: 3, Level: 2, Input: reps[j]}}}
					for g := 0; g < 16; g++ {
						w.Goroutines = append(w.Goroutines, []wop{{Kind: "hammer", Idx: g, Count: int(pick(400, 20000))}, {Kind: "query", Idx: g, Obs: "severity"}})
					}
					evals++
					evalEnum(c, "workload", w, checkC16, &nviol)
				}
			}
			c.rec.SetExtra(fmt.Sprintf("pair_hammer_distinct_subscores_v%s", ver), len(reps))
		}
		c.rec.Bulk("pair-hammer", evals, evals, map[string]int64{"pair-hammer:two-distinct-subscores": evals})
	}
	// ---- operation hammer: every goroutine repeats one export / report / decode in a tight
	// loop, different goroutines with different templates, languages and vectors. Caches of
	// the last template, the last language or the last vector that are published in more than
	// one step are torn only when different keys arrive within nanoseconds of each other.
	{
		nviol := 0
		var evals int64
		pool := []poolEntry{
			{Ver: 3, Level: 2, Input: "CVSS:3.1/AV:A/AC:H/PR:L/UI:N/S:C/C:L/I:H/A:L/E:P/RL:O/RC:U/CR:L/IR:M/AR:L/MAV:P/MAC:L/MPR:L/MUI:R/MS:C/MC:H/MI:H/MA:H"},
			{Ver: 3, Level: 0, Input: "CVSS:3.0/AV:N/AC:L/PR:N/UI:N/S:U/C:H/I:H/A:H"},
			{Ver: 3, Level: 1, Input: "CVSS:3.1/S:U/AV:N/AC:L/PR:H/UI:N/C:L/I:L/A:N/E:F/RL:X"},
			{Ver: 2, Level: 2, Input: "AV:N/AC:L/Au:N/C:P/I:P/A:C/E:F/RL:OF/RC:C/CDP:H/TD:H/CR:M/IR:M/AR:H"},
			{Ver: 3, Level: 2, Input: "CVSS:3.1/AV:N/AC:L/PR:N/UI:N/S:U/C:H/I:H/A:H/E:X/RL:BAD"},
			{Ver: 2, Level: 0, Input: "AV:L/AC:H/Au:M/C:N/I:N/A:P"},
		}
		// besides the short templates, three different ones beyond 4 KiB and one beyond 64 KiB
		// (size thresholds of readers, buffers and whatever is keyed on large inputs)
		hammerTpls := append([]string(nil), c16Templates...)
		for k, unit := range []string{"x", "ab\n", "é", "0123456789"} {
			n := 4200
			if k == 3 {
				n = int(pick(9000, 70000))
			}
			hammerTpls = append(hammerTpls, fmt.Sprintf("{{.Version}}|%d|", k)+strings.Repeat(unit, n/len(unit))+"{{.Vector}}")
		}
		kinds := []string{"export", "export", "report", "decode"}
		for round := 0; round < int(pick(6, 60)) && nviol == 0; round++ {
			w := workload{Procs: 16, Pool: pool}
			kind := kinds[(round+shard)%len(kinds)]
			for g := 0; g < 16; g++ {
				o := wop{Kind: "hammer-op", Obs: kind, Idx: (g + round) % len(pool), Count: int(pick(250, 2500)),
					Lang: c16Langs[(g/2+round)%len(c16Langs)], Tpl: hammerTpls[(g+round+shard)%len(hammerTpls)]}
				if round%3 == 2 { // every third round: only the large templates
					o.Tpl = hammerTpls[len(c16Templates)+(g+shard)%4]
				}
				w.Goroutines = append(w.Goroutines, []wop{o})
			}
			evals++
			evalEnum(c, "workload", w, checkC16, &nviol)
		}
		c.rec.Bulk("operation-hammer", evals, evals, map[string]int64{"operation-hammer": evals})
	}
	tpls := append([]string{"{{range $i, $e := .Version}}{{$e}}{{end}}", "{{if eq .SeverityValue \"High\"}}!{{end}}{{.Version}}"}, c16Templates...)
	c.rapidStage("workloads", pick(1600, 24000), func(rt *rapid.T) {
		var w workload
		np := rapid.IntRange(1, 6).Draw(rt, "poolsize")
		for i := 0; i < np; i++ {
			ver := rapid.SampledFrom([]int{3, 3, 2}).Draw(rt, "ver")
			lv := gen.Level().Draw(rt, "level")
			if rapid.IntRange(0, 5).Draw(rt, "invalid") == 0 {
				s, _ := gen.Mutated(rt, ver)
				w.Pool = append(w.Pool, poolEntry{Ver: ver, Level: int(lv), Input: s})
			} else {
				pe := poolEntry{Ver: ver, Level: int(lv), Input: gen.Valid(ver, lv).Draw(rt, "vec").String()}
				switch rapid.IntRange(0, 5).Draw(rt, "sharedkind") {
				case 0:
					pe.FieldBuilt = true
				case 1, 2:
					for _, fl := range fieldsOf(ver, lv) {
						if rapid.IntRange(0, 5).Draw(rt, "assign") == 0 {
							pe.Assign = append(pe.Assign, op{Kind: "set", Field: fl[0].(string), Index: rapid.IntRange(0, 1).Draw(rt, "aidx")})
						}
					}
				}
				w.Pool = append(w.Pool, pe)
			}
		}
		ng := rapid.IntRange(2, 16).Draw(rt, "goroutines")
		maxOps := int(pick(50, 50))
		queried := map[int]int{}
		exports := 0
		for g := 0; g < ng; g++ {
			n := rapid.IntRange(1, maxOps).Draw(rt, "nops")
			ops := make([]wop, n)
			seen := map[int]bool{}
			for k := range ops {
				o := wop{Idx: rapid.IntRange(0, np-1).Draw(rt, "idx"), Yield: rapid.IntRange(0, 7).Draw(rt, "yield") == 0}
				switch kk := rapid.IntRange(0, 9).Draw(rt, "kind"); {
				case kk < 3:
					o.Kind = "decode"
				case kk < 7:
					o.Kind = "query"
					o.Obs = rapid.SampledFrom([]string{"score", "severity", "geterror", "encode", "string"}).Draw(rt, "obs")
					if !seen[o.Idx] {
						seen[o.Idx] = true
						queried[o.Idx]++
					}
				case kk < 8:
					o.Kind = "report"
					o.Lang = rapid.SampledFrom(c16Langs).Draw(rt, "lang")
				default:
					o.Kind = "export"
					o.Lang = rapid.SampledFrom(c16Langs[:5]).Draw(rt, "lang")
					o.Tpl = rapid.SampledFrom(tpls).Draw(rt, "tpl")
					o.Hold = rapid.Bool().Draw(rt, "hold")
					exports++
				}
				ops[k] = o
			}
			w.Goroutines = append(w.Goroutines, ops)
		}
		w.Procs = rapid.SampledFrom([]int{2, 4, 16}).Draw(rt, "procs")
		sharedQ := false
		for _, n := range queried {
			if n >= 2 {
				sharedQ = true
			}
		}
		c.rec.Case("workloads", fmt.Sprintf("%+v", w), sharedQ && exports > 0, fmt.Sprintf("procs=%d", w.Procs), fmt.Sprintf("goroutines>=8:%v", ng >= 8))
		total := 0
		for _, g := range w.Goroutines {
			total += len(g)
		}
		c.rec.AddExtraInt("total_operations", int64(total))
		if c.rec.SampleCount() < 2 && total < 12 {
			c.rec.Sample(w)
		}
		evalCase(c, rt, "workload", w, checkC16)
	})
}
