package props

import (
	"fmt"
	"reflect"
	"strings"
	"testing"

	m2 "github.com/goark/go-cvss/v2/metric"
	m3 "github.com/goark/go-cvss/v3/metric"
	"pgregory.net/rapid"
	"verif/harness/gen"
	"verif/harness/spec"
)

// C12 — no input or receiver state makes the library panic or fabricate a result.

// view is one queryable object (possibly a nil pointer) of some level.
type view struct {
	name   string
	level  spec.Level
	isNil  bool
	score  func() float64
	sev    func() string
	getErr func() error
	encode func() (string, error)
	str    func() string
	// fields reports whether the version or some metric of this view's level holds its
	// unknown/invalid (zero) value; for v2 only metrics of present groups count.
	invalid func() bool
}

func zeroField(v reflect.Value, names ...string) bool {
	for _, n := range names {
		if v.FieldByName(n).Int() == 0 {
			return true
		}
	}
	return false
}

var (
	v3BaseFields = []string{"Ver", "AV", "AC", "PR", "UI", "S", "C", "I", "A"}
	v3TempFields = []string{"E", "RL", "RC"}
	v3EnvFields  = []string{"CR", "IR", "AR", "MAV", "MAC", "MPR", "MUI", "MS", "MC", "MI", "MA"}
	v2BaseFields = []string{"AV", "AC", "Au", "C", "I", "A"}
	v2TempFields = []string{"E", "RL", "RC"}
	v2EnvFields  = []string{"CDP", "TD", "CR", "IR", "AR"}
)

func views3(b *m3.Base, t *m3.Temporal, e *m3.Environmental, top spec.Level) []view {
	var vs []view
	baseInvalid := func(b *m3.Base) bool { return b == nil || zeroField(reflect.ValueOf(b).Elem(), v3BaseFields...) }
	tempInvalid := func(t *m3.Temporal) bool {
		return t == nil || baseInvalid(t.Base) || zeroField(reflect.ValueOf(t).Elem(), v3TempFields...)
	}
	addB := func(name string, b *m3.Base) {
		vs = append(vs, view{name: name, level: spec.Base, isNil: b == nil,
			score: b.Score, sev: func() string { return b.Severity().String() }, getErr: b.GetError, encode: b.Encode, str: b.String,
			invalid: func() bool { return baseInvalid(b) }})
	}
	addT := func(name string, t *m3.Temporal) {
		vs = append(vs, view{name: name, level: spec.Temporal, isNil: t == nil,
			score: t.Score, sev: func() string { return t.Severity().String() }, getErr: t.GetError, encode: t.Encode, str: t.String,
			invalid: func() bool { return tempInvalid(t) }})
		addB(name+".BaseMetrics()", t.BaseMetrics())
	}
	switch top {
	case spec.Base:
		addB("base", b)
		addB("base.BaseMetrics()", b.BaseMetrics())
	case spec.Temporal:
		addT("temporal", t)
	default:
		vs = append(vs, view{name: "environmental", level: spec.Environmental, isNil: e == nil,
			score: e.Score, sev: func() string { return e.Severity().String() }, getErr: e.GetError, encode: e.Encode, str: e.String,
			invalid: func() bool {
				return e == nil || tempInvalid(e.Temporal) || zeroField(reflect.ValueOf(e).Elem(), v3EnvFields...)
			}})
		addT("environmental.TemporalMetrics()", e.TemporalMetrics())
		addB("environmental.BaseMetrics()", e.BaseMetrics())
	}
	return vs
}

func views2(b *m2.Base, t *m2.Temporal, e *m2.Environmental, top spec.Level) []view {
	var vs []view
	baseInvalid := func(b *m2.Base) bool { return b == nil || zeroField(reflect.ValueOf(b).Elem(), v2BaseFields...) }
	tempInvalid := func(t *m2.Temporal) bool {
		if t == nil || baseInvalid(t.Base) {
			return true
		}
		return !t.IsEmpty() && zeroField(reflect.ValueOf(t).Elem(), v2TempFields...)
	}
	addB := func(name string, b *m2.Base) {
		vs = append(vs, view{name: name, level: spec.Base, isNil: b == nil,
			score: b.Score, sev: func() string { return b.Severity().String() }, getErr: b.GetError, encode: b.Encode, str: b.String,
			invalid: func() bool { return baseInvalid(b) }})
	}
	addT := func(name string, t *m2.Temporal) {
		vs = append(vs, view{name: name, level: spec.Temporal, isNil: t == nil,
			score: t.Score, sev: func() string { return t.Severity().String() }, getErr: t.GetError, encode: t.Encode, str: t.String,
			invalid: func() bool { return tempInvalid(t) }})
		addB(name+".BaseMetrics()", t.BaseMetrics())
	}
	switch top {
	case spec.Base:
		addB("base", b)
	case spec.Temporal:
		addT("temporal", t)
	default:
		vs = append(vs, view{name: "environmental", level: spec.Environmental, isNil: e == nil,
			score: e.Score, sev: func() string { return e.Severity().String() }, getErr: e.GetError, encode: e.Encode, str: e.String,
			invalid: func() bool {
				if e == nil || tempInvalid(e.Temporal) {
					return true
				}
				return !e.IsEmpty() && zeroField(reflect.ValueOf(e).Elem(), v2EnvFields...)
			}})
		addT("environmental.TemporalMetrics()", e.TemporalMetrics())
		addB("environmental.BaseMetrics()", e.BaseMetrics())
	}
	return vs
}

// probeViews runs every observer of every view (no panic is enforced by the caller's
// guard) and, where a view is in an invalid state, demands error / error / score 0.
func probeViews(what string, vs []view) string {
	for _, v := range vs {
		score := v.score()
		_ = v.sev()
		gerr := v.getErr()
		enc, eerr := v.encode()
		_ = v.str()
		if v.invalid() {
			if gerr == nil {
				return fmt.Sprintf("%s: %s holds an unknown/invalid metric (or is nil/fresh) but GetError() is nil", what, v.name)
			}
			if eerr == nil {
				return fmt.Sprintf("%s: %s holds an unknown/invalid metric (or is nil/fresh) but Encode() returns no error (%q)", what, v.name, enc)
			}
			if score != 0 {
				return fmt.Sprintf("%s: %s holds an unknown/invalid metric (or is nil/fresh) but Score() = %v", what, v.name, score)
			}
		}
	}
	return ""
}

// usableViews: an object returned together with a nil error is "a usable object": at every
// view its validity query reports no error and its encoding succeeds.
func usableViews(what string, vs []view) string {
	for _, v := range vs {
		if err := v.getErr(); err != nil {
			return fmt.Sprintf("%s, but %s of the returned object reports %v", what, v.name, err)
		}
		if enc, err := v.encode(); err != nil {
			return fmt.Sprintf("%s, but Encode() of %s of the returned object fails (%q, %v)", what, v.name, enc, err)
		}
	}
	// ... and it is the object its own encoding describes: a fresh decoder of the same level
	// fed the top-level encoding answers score and severity at every view as this object does
	// (whatever a re-used decoder kept from earlier calls is part of that encoding)
	if len(vs) > 0 {
		top := vs[0]
		enc, _ := top.encode()
		ver := 3
		if !strings.HasPrefix(enc, "CVSS:") {
			ver = 2
		}
		fresh, ok := makeSubject(opsCase{Ver: ver, Level: int(top.level), Input: enc, NilRecv: true})
		if !ok {
			return fmt.Sprintf("%s, but a fresh decoder refuses the returned object's own encoding %q", what, enc)
		}
		fv := fresh.views()
		if len(fv) == len(vs) {
			for i := range vs {
				for _, obs := range []string{"score", "severity"} {
					if x, y := observe(vs[i], obs), observe(fv[i], obs); x != y {
						return fmt.Sprintf("%s and the returned object encodes itself as %q, but a fresh decode of that text answers %s of %s with %s where the object answers %s", what, enc, obs, vs[i].name, y, x)
					}
				}
			}
		}
	}
	return ""
}

// ---- (a) + (b): arbitrary strings, receiver left behind -----------------------------------

var checkC12String = register("C12/string", func(c strCase) string {
	if !c.valid() {
		return ""
	}
	s := string(c.Input)
	lv := spec.Level(c.Level)
	what := fmt.Sprintf("after Decode(%s)", quoteShort(c.Input))
	if c.Ver == 3 {
		var rb *m3.Base
		var rt *m3.Temporal
		var re *m3.Environmental
		var isNil bool
		var err error
		switch lv {
		case spec.Base:
			if !c.NilRecv {
				rb = m3.NewBase()
			}
			var o *m3.Base
			o, err = rb.Decode(s)
			isNil = o == nil
			if o != nil {
				if m := probeViews(what+" returned object", views3(o, nil, nil, lv)); m != "" {
					return m
				}
			}
		case spec.Temporal:
			if !c.NilRecv {
				rt = m3.NewTemporal()
			}
			var o *m3.Temporal
			o, err = rt.Decode(s)
			isNil = o == nil
			if o != nil {
				if m := probeViews(what+" returned object", views3(nil, o, nil, lv)); m != "" {
					return m
				}
			}
		default:
			if !c.NilRecv {
				re = m3.NewEnvironmental()
			}
			var o *m3.Environmental
			o, err = re.Decode(s)
			isNil = o == nil
			if o != nil {
				if m := probeViews(what+" returned object", views3(nil, nil, o, lv)); m != "" {
					return m
				}
			}
		}
		if isNil == (err == nil) {
			return fmt.Sprintf("Decode(%s) returned object-nil=%v with error %v", quoteShort(c.Input), isNil, err)
		}
		// receiver left behind (or nil receiver): observers must not panic; invalid => error/0
		if m := probeViews(what+" receiver", views3(rb, rt, re, lv)); m != "" {
			return m
		}
		// the same decoder asked again (whatever it answers: no panic, object xor error)
		for _, again := range []string{s, "CVSS:3.1/AV:N/AC:L/PR:N/UI:N/S:U/C:H/I:H/A:H", ""} {
			var nilObj bool
			var err2 error
			var got []view
			switch lv {
			case spec.Base:
				var o *m3.Base
				o, err2 = rb.Decode(again)
				nilObj = o == nil
				got = views3(o, nil, nil, lv)
			case spec.Temporal:
				var o *m3.Temporal
				o, err2 = rt.Decode(again)
				nilObj = o == nil
				got = views3(nil, o, nil, lv)
			default:
				var o *m3.Environmental
				o, err2 = re.Decode(again)
				nilObj = o == nil
				got = views3(nil, nil, o, lv)
			}
			if nilObj == (err2 == nil) {
				return fmt.Sprintf("%s: a further Decode(%s) on the same decoder returned object-nil=%v with error %v", what, quoteShort([]byte(again)), nilObj, err2)
			}
			if err2 == nil {
				if m := usableViews(fmt.Sprintf("%s: a further Decode(%s) on the same decoder succeeded", what, quoteShort([]byte(again))), got); m != "" {
					return m
				}
			}
		}
		return ""
	}
	var rb *m2.Base
	var rt *m2.Temporal
	var re *m2.Environmental
	var isNil bool
	var err error
	switch lv {
	case spec.Base:
		if !c.NilRecv {
			rb = m2.NewBase()
		}
		var o *m2.Base
		o, err = rb.Decode(s)
		isNil = o == nil
		if o != nil {
			if m := probeViews(what+" returned object", views2(o, nil, nil, lv)); m != "" {
				return m
			}
		}
	case spec.Temporal:
		if !c.NilRecv {
			rt = m2.NewTemporal()
		}
		var o *m2.Temporal
		o, err = rt.Decode(s)
		isNil = o == nil
		if o != nil {
			if m := probeViews(what+" returned object", views2(nil, o, nil, lv)); m != "" {
				return m
			}
		}
	default:
		if !c.NilRecv {
			re = m2.NewEnvironmental()
		}
		var o *m2.Environmental
		o, err = re.Decode(s)
		isNil = o == nil
		if o != nil {
			if m := probeViews(what+" returned object", views2(nil, nil, o, lv)); m != "" {
				return m
			}
		}
	}
	if isNil == (err == nil) {
		return fmt.Sprintf("Decode(%s) returned object-nil=%v with error %v", quoteShort(c.Input), isNil, err)
	}
	if m := probeViews(what+" receiver", views2(rb, rt, re, lv)); m != "" {
		return m
	}
	for _, again := range []string{s, "AV:N/AC:L/Au:N/C:P/I:P/A:C", ""} {
		var nilObj bool
		var err2 error
		var got []view
		switch lv {
		case spec.Base:
			var o *m2.Base
			o, err2 = rb.Decode(again)
			nilObj = o == nil
			got = views2(o, nil, nil, lv)
		case spec.Temporal:
			var o *m2.Temporal
			o, err2 = rt.Decode(again)
			nilObj = o == nil
			got = views2(nil, o, nil, lv)
		default:
			var o *m2.Environmental
			o, err2 = re.Decode(again)
			nilObj = o == nil
			got = views2(nil, nil, o, lv)
		}
		if nilObj == (err2 == nil) {
			return fmt.Sprintf("%s: a further Decode(%s) on the same decoder returned object-nil=%v with error %v", what, quoteShort([]byte(again)), nilObj, err2)
		}
		if err2 == nil {
			if m := usableViews(fmt.Sprintf("%s: a further Decode(%s) on the same decoder succeeded", what, quoteShort([]byte(again))), got); m != "" {
				return m
			}
		}
	}
	return ""
})

// ---- (c): nil, fresh and field-reset objects -----------------------------------------------

// objCase: Kind "nil" | "fresh" | "reset" (decode Vector, then set exported field Reset of
// the object at ResetLevel to its zero unknown/invalid constant).
type objCase struct {
	Ver        int    `json:"cvss_version"`
	Level      int    `json:"object_level"`
	Kind       string `json:"kind"`
	Vector     string `json:"vector,omitempty"`
	Reset      string `json:"reset_field,omitempty"`
	ResetLevel int    `json:"reset_field_level,omitempty"`
	// QueriedFirst: every observer is called on the valid decoded object before the reset
	QueriedFirst bool `json:"queried_before_reset,omitempty"`
}

func resetField(ptr any, name string) bool {
	v := reflect.ValueOf(ptr)
	if v.IsNil() {
		return false
	}
	f := v.Elem().FieldByName(name)
	if !f.IsValid() || !f.CanSet() {
		return false
	}
	f.SetInt(0)
	return true
}

var checkC12Obj = register("C12/object", func(c objCase) string {
	lv := spec.Level(c.Level)
	if c.Level < 0 || c.Level > 2 || (c.Ver != 2 && c.Ver != 3) {
		return ""
	}
	what := fmt.Sprintf("%s v%d %v object", c.Kind, c.Ver, lv)
	if c.Ver == 3 {
		var b *m3.Base
		var t *m3.Temporal
		var e *m3.Environmental
		switch c.Kind {
		case "nil":
		case "fresh":
			b, t, e = m3.NewBase(), m3.NewTemporal(), m3.NewEnvironmental()
		case "nil-after-chain-decodes", "fresh-after-chain-decodes":
			// valid vectors are decoded through what the accessors of nil (or fresh) objects
			// return — a nil accessor result is a nil-receiver decoder — and then nil / other
			// fresh objects are probed: they must be as empty as before
			const vb, vt = "CVSS:3.1/AV:N/AC:L/PR:N/UI:N/S:U/C:H/I:H/A:H", "CVSS:3.1/AV:N/AC:L/PR:N/UI:N/S:U/C:H/I:H/A:H/E:F/RL:O/RC:C"
			var t0 *m3.Temporal
			var e0 *m3.Environmental
			if c.Kind == "fresh-after-chain-decodes" {
				t0, e0 = m3.NewTemporal(), m3.NewEnvironmental()
			}
			for k := 0; k < 2; k++ {
				if o, err := t0.BaseMetrics().Decode(vb); (o == nil) == (err == nil) {
					return what + ": Decode through Temporal.BaseMetrics() returned neither or both of object and error"
				}
				if o, err := e0.BaseMetrics().Decode(vb); (o == nil) == (err == nil) {
					return what + ": Decode through Environmental.BaseMetrics() returned neither or both of object and error"
				}
				if o, err := e0.TemporalMetrics().Decode(vt); (o == nil) == (err == nil) {
					return what + ": Decode through Environmental.TemporalMetrics() returned neither or both of object and error"
				}
				if o, err := e0.TemporalMetrics().BaseMetrics().Decode(vb); (o == nil) == (err == nil) {
					return what + ": Decode through Environmental.TemporalMetrics().BaseMetrics() returned neither or both of object and error"
				}
			}
			if c.Kind == "fresh-after-chain-decodes" {
				b, t, e = m3.NewBase(), m3.NewTemporal(), m3.NewEnvironmental()
			}
		case "reset":
			o, err := decode3(lv, c.Vector, false)
			if err != nil {
				return "" // not an accepted vector: outside this case's domain
			}
			b, t, e = o.B, o.T, o.E
			if c.QueriedFirst { // the valid object is queried completely before the field is reset
				snapViews(views3(b, t, e, lv))
			}
			// the field is reset through the top-level object (promoted fields), never through
			// an accessor result taken earlier
			var target any
			switch lv {
			case spec.Base:
				target = b
			case spec.Temporal:
				target = t
			default:
				target = e
			}
			if target == nil || !resetField(target, c.Reset) {
				return ""
			}
			o = o.refreshed()
			b, t, e = o.B, o.T, o.E
			what += fmt.Sprintf(" %q with %s reset", c.Vector, c.Reset)
		default:
			return ""
		}
		var vs []view
		switch lv {
		case spec.Base:
			vs = views3(b, nil, nil, lv)
		case spec.Temporal:
			vs = views3(nil, t, nil, lv)
		default:
			vs = views3(nil, nil, e, lv)
		}
		return probeViews(what, emptyObjectViews(c.Kind, vs))
	}
	var b *m2.Base
	var t *m2.Temporal
	var e *m2.Environmental
	switch c.Kind {
	case "nil":
	case "fresh":
		b, t, e = m2.NewBase(), m2.NewTemporal(), m2.NewEnvironmental()
	case "nil-after-chain-decodes", "fresh-after-chain-decodes":
		const vb, vt = "AV:N/AC:L/Au:N/C:P/I:P/A:C", "AV:N/AC:L/Au:N/C:P/I:P/A:C/E:F/RL:OF/RC:C"
		var t0 *m2.Temporal
		var e0 *m2.Environmental
		if c.Kind == "fresh-after-chain-decodes" {
			t0, e0 = m2.NewTemporal(), m2.NewEnvironmental()
		}
		for k := 0; k < 2; k++ {
			if o, err := t0.BaseMetrics().Decode(vb); (o == nil) == (err == nil) {
				return what + ": Decode through Temporal.BaseMetrics() returned neither or both of object and error"
			}
			if o, err := e0.BaseMetrics().Decode(vb); (o == nil) == (err == nil) {
				return what + ": Decode through Environmental.BaseMetrics() returned neither or both of object and error"
			}
			if o, err := e0.TemporalMetrics().Decode(vt); (o == nil) == (err == nil) {
				return what + ": Decode through Environmental.TemporalMetrics() returned neither or both of object and error"
			}
			if o, err := e0.TemporalMetrics().BaseMetrics().Decode(vb); (o == nil) == (err == nil) {
				return what + ": Decode through Environmental.TemporalMetrics().BaseMetrics() returned neither or both of object and error"
			}
		}
		if c.Kind == "fresh-after-chain-decodes" {
			b, t, e = m2.NewBase(), m2.NewTemporal(), m2.NewEnvironmental()
		}
	case "reset":
		o, err := decode2(lv, c.Vector, false)
		if err != nil {
			return ""
		}
		b, t, e = o.B, o.T, o.E
		if c.QueriedFirst {
			snapViews(views2(b, t, e, lv))
		}
		var target any
		switch lv {
		case spec.Base:
			target = b
		case spec.Temporal:
			target = t
		default:
			target = e
		}
		if target == nil || !resetField(target, c.Reset) {
			return ""
		}
		o = o.refreshed()
		b, t, e = o.B, o.T, o.E
		what += fmt.Sprintf(" %q with %s reset", c.Vector, c.Reset)
	default:
		return ""
	}
	var vs []view
	switch lv {
	case spec.Base:
		vs = views2(b, nil, nil, lv)
	case spec.Temporal:
		vs = views2(nil, t, nil, lv)
	default:
		vs = views2(nil, nil, e, lv)
	}
	return probeViews(what, emptyObjectViews(c.Kind, vs))
})

// emptyObjectViews: whatever the accessors of a nil receiver or of a fresh constructor
// result return has never been given a vector either, so every view of the chain must
// report an error and score 0 — whatever its fields look like.
func emptyObjectViews(kind string, vs []view) []view {
	if kind == "reset" {
		return vs
	}
	for i := range vs {
		vs[i].invalid = func() bool { return true }
	}
	return vs
}

// fieldsOf lists (field, level) pairs resettable in an object of the given level.
func fieldsOf(ver int, level spec.Level) [][2]any {
	var r [][2]any
	add := func(names []string, l spec.Level) {
		for _, n := range names {
			r = append(r, [2]any{n, l})
		}
	}
	if ver == 3 {
		add(v3BaseFields, spec.Base)
		if level >= spec.Temporal {
			add(v3TempFields, spec.Temporal)
		}
		if level >= spec.Environmental {
			add(v3EnvFields, spec.Environmental)
		}
	} else {
		add(v2BaseFields, spec.Base)
		if level >= spec.Temporal {
			add(v2TempFields, spec.Temporal)
		}
		if level >= spec.Environmental {
			add(v2EnvFields, spec.Environmental)
		}
	}
	return r
}

func longInputs() []string {
	rep := func(s string, n int) string { return strings.Repeat(s, n) }
	return []string{
		rep("/", 1<<20),
		"CVSS:3.1" + rep("/", 1<<20),
		"CVSS:3.1/" + rep("AV:N/", 1<<18),
		rep("AV:N/AC:L/Au:N/C:P/I:P/A:C/", 1<<16),
		"CVSS:3.1/AV:N/AC:L/PR:N/UI:N/S:U/C:H/I:H/A:H/" + rep("Q:Q/", 1<<18),
		rep(":", 1<<21),
		"CVSS:3.1/AV:" + rep("N", 1<<22),
		rep("\x00", 1<<20),
	}
}

func TestC12(t *testing.T) {
	c := begin(t, "C12")
	defer c.end()
	c.rec.F.Rule = "strings: the generator mix of C07/C08 for both versions (valid, mutated, single-defect, arbitrary unicode / bytes / alphabet / token soup) at all six decoders through constructor and nil receiver: no panic, exactly one of (object, error) non-nil, then every observer (Score, Severity, GetError, Encode, String, BaseMetrics, TemporalMetrics and the chains through returned sub-objects) on the returned object and on the receiver left behind, then three further Decode calls on that same decoder (no panic, object xor error, and an object returned without error must be usable: no view reports an error or fails to encode — nothing else is asserted about a re-used decoder); plus the deterministic hostile shapes of C07 (floods around power-of-two counts, boundary-length tokens, look-alike characters, dense multi-byte text); thorough adds eight constructed 1-4 MiB inputs and native fuzzing. objects: nil receivers and fresh constructor results of all six types, the same after valid vectors were decoded through the accessor results of nil and of other fresh objects (a nil accessor result is a nil-receiver decoder), and the complete one-field-reset enumeration (every exported field of every level set to its unknown/invalid constant, with and without a complete round of queries on the still valid object beforehand) over generated accepted vectors: no panic, and where the version or a metric of the queried level (v2: of a present group) is unknown/invalid: GetError != nil, Encode returns an error, Score == 0. Non-trivial = failed decode leaving a partially filled receiver, or a reset / nil / fresh object; distinct by hash of the case."
	c.rec.F.Assumptions = []string{"v2 IsEmpty() on a nil receiver is not among the queries the property lists and is not called on nil receivers", "zero value of every exported enumeration field is its unknown/invalid constant"}

	// ---- nil and fresh objects ------------------------------------------------------------------
	nviol := 0
	if shard == 0 {
		for _, ver := range []int{2, 3} {
			for lv := 0; lv < 3; lv++ {
				for _, kind := range []string{"nil", "fresh", "nil-after-chain-decodes", "fresh-after-chain-decodes"} {
					cs := objCase{Ver: ver, Level: lv, Kind: kind}
					c.rec.Case("objects", fmt.Sprintf("%v", cs), true, "object:"+kind)
					evalEnum(c, "object", cs, checkC12Obj, &nviol)
				}
			}
		}
		if thorough() {
			for i, s := range longInputs() {
				for _, ver := range []int{2, 3} {
					cs := newStrCase(ver, spec.Level(i%3), i%2 == 0, s)
					cs.Text = fmt.Sprintf("(%d bytes) %s", len(s), quoteShort(cs.Input))
					c.rec.Case("long-inputs", fmt.Sprintf("long%d/%d", i, ver), true, "long-input")
					evalEnum(c, "string", cs, checkC12String, &nviol)
				}
			}
		}
	}
	// ---- hostile shapes ----------------------------------------------------------------------------
	for _, ver := range []int{3, 2} {
		forEachShape(ver, func(j int, cs strCase, label string) {
			if nviol > 0 || !mine(j) {
				return
			}
			c.rec.Case("shapes", cs.key(), !refAccept(cs), shapeClass(label))
			evalEnum(c, "string", cs, checkC12String, &nviol)
		})
	}
	// ---- field-reset enumeration over generated accepted vectors ------------------------------------
	c.rapidStage("reset", pick(8000, 100000), func(rt *rapid.T) {
		ver := rapid.SampledFrom([]int{2, 3}).Draw(rt, "version")
		lv := gen.Level().Draw(rt, "level")
		var vec spec.Vec
		if ver == 3 {
			vec = gen.FullV3(lv, 60).Draw(rt, "vector")
		} else {
			vec = gen.ValidV2(lv).Draw(rt, "vector")
		}
		for _, fl := range fieldsOf(ver, lv) {
			cs := objCase{Ver: ver, Level: int(lv), Kind: "reset", Vector: vec.String(), Reset: fl[0].(string), ResetLevel: int(fl[1].(spec.Level)), QueriedFirst: rapid.Bool().Draw(rt, "queriedfirst")}
			c.rec.Case("reset", fmt.Sprintf("%v", cs), true, fmt.Sprintf("reset:v%d:%v", ver, fl[1]))
			if c.rec.SampleCount() < 4 {
				c.rec.Sample(cs)
			}
			evalCase(c, rt, "object", cs, checkC12Obj)
		}
	})
	// ---- arbitrary strings ------------------------------------------------------------------------
	c.rapidStage("strings", pick(320000, 3000000), func(rt *rapid.T) {
		ver := rapid.SampledFrom([]int{2, 3}).Draw(rt, "version")
		cs, cl := drawStringCase(rt, ver, int(pick(512, 65536)))
		c.rec.Case("strings", cs.key(), !refAccept(cs), cl...)
		if c.rec.SampleCount() < 10 {
			c.rec.Sample(cs)
		}
		evalCase(c, rt, "string", cs, checkC12String)
	})
}
