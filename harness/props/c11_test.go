package props

import (
	"fmt"
	"strings"
	"testing"

	"pgregory.net/rapid"
	"verif/harness/gen"
	"verif/harness/spec"
)

// C11 — every rejection carries exactly one sentinel naming a defect the input really has.

var checkC11 = register("C11/string", func(c strCase) string {
	if !c.valid() {
		return ""
	}
	_, err := decodeAny(c)
	if err == nil {
		return "" // not a rejection (acceptance is C07/C08's subject)
	}
	ms := matching(err)
	if len(ms) != 1 {
		var names []string
		for _, m := range ms {
			names = append(names, m.name)
		}
		return fmt.Sprintf("rejection of %s matches %d sentinels %v under errors.Is (error: %v)", quoteShort(c.Input), len(ms), names, err)
	}
	s := ms[0]
	ds := refDefects(c)
	if s.d < 0 || !ds.Has(s.d) {
		return fmt.Sprintf("rejection of %s by the %v decoder reports %s, but the input exhibits %v", quoteShort(c.Input), spec.Level(c.Level), s.name, ds)
	}
	if c.Expect != "" && s.d.String() != c.Expect {
		return fmt.Sprintf("single-defect input %s (%s) rejected with %s", quoteShort(c.Input), c.Expect, s.name)
	}
	return ""
})

// levelOfVec is the lowest decoder level whose domain contains every token of v.
func levelOfVec(ver int, v spec.Vec) spec.Level {
	tab := spec.V3Metrics
	if ver == 2 {
		tab = spec.V2Metrics
	}
	lv := spec.Base
	for _, t := range v.Toks {
		if m := spec.ByName(tab, t.Name); m != nil && m.Level > lv {
			lv = m.Level
		}
	}
	return lv
}

func TestC11(t *testing.T) {
	c := begin(t, "C11")
	defer c.end()
	c.rec.F.Rule = "single-defect enumeration: for 6 representative vectors per CVSS version, at every decoder level covering the vector, every defect kind x every token x every position (bad value from every foreign code and junk; repeated name with every legal value at every later position; extra unknown / higher-level token at every position; malformed token at every position; malformed prefixes; other versions; every missing base metric and pair; v2 every partial group subset and every transposition) with the reported sentinel required to be exactly the constructed kind; shapes: the flood / long-token / look-alike / dense-text inputs of C07 (a flood of well-formed unknown tokens exhibits exactly one defect kind, whatever its length); rapid: the generator mix of C07/C08 for both versions (mutated, single-defect, arbitrary strings) with the sentinel required to be unique under errors.Is and a member of the classifier's defect set. Non-trivial = a rejected input; distinct by hash of (version, decoder, receiver, input)."
	c.rec.F.Assumptions = []string{"defect classifier (harness/spec) returns the set of all defect kinds present; for multi-defect inputs any member is accepted, for constructed single-defect inputs the kind is fixed by construction", "an empty version label (CVSS:) counts as malformed prefix or unsupported version"}
	nviol := 0
	i := 0
	for _, ver := range []int{3, 2} {
		for _, v := range representatives(ver) {
			for lv := levelOfVec(ver, v); lv <= spec.Environmental; lv++ {
				gen.EnumSingleDefects(ver, v, lv, func(input string, d spec.Defect, label string) {
					i++
					if nviol > 0 || !mine(i) {
						return
					}
					cs := newStrCase(ver, lv, i%2 == 1, input)
					cs.Expect = d.String()
					ds := refDefects(cs)
					if !ds.Has(d) {
						c.violation("harness-selfcheck", cs, fmt.Sprintf("classifier set %v lacks the constructed defect %v", ds, d))
						nviol++
						return
					}
					c.rec.Case("single-defect-enum", cs.key(), true, fmt.Sprintf("enum:v%d:%s:%s", ver, d, strings.SplitN(label, ":", 2)[0]))
					if c.rec.SampleCount() < 4 && i%3571 == 0 {
						c.rec.Sample(cs)
					}
					evalEnum(c, "string", cs, checkC11, &nviol)
				})
			}
		}
	}
	for _, ver := range []int{3, 2} {
		forEachShape(ver, func(j int, cs strCase, label string) {
			if nviol > 0 || !mine(j) {
				return
			}
			c.rec.Case("shapes", cs.key(), !refAccept(cs), shapeClass(label))
			evalEnum(c, "string", cs, checkC11, &nviol)
		})
	}
	c.rapidStage("rapid", pick(320000, 3000000), func(rt *rapid.T) {
		ver := rapid.SampledFrom([]int{2, 3}).Draw(rt, "version")
		cs, cl := drawStringCase(rt, ver, int(pick(256, 2048)))
		ds := refDefects(cs)
		if cs.Expect != "" && !ds.Has(defectByName(cs.Expect)) {
			rt.Fatalf("harness: classifier set %v lacks constructed defect %s for %s", ds, cs.Expect, cs.Text)
		}
		rejected := !ds.Empty()
		if rejected {
			n := ds.Len()
			if n > 3 {
				n = 3
			}
			cl = append(cl, fmt.Sprintf("v%d:defect-kinds=%d", ver, n))
		} else {
			cl = append(cl, fmt.Sprintf("v%d:accepted", ver))
		}
		c.rec.Case("rapid", cs.key(), rejected, cl...)
		if c.rec.SampleCount() < 10 {
			c.rec.Sample(cs)
		}
		evalCase(c, rt, "string", cs, checkC11)
	})
}

func defectByName(s string) spec.Defect {
	for d := spec.Defect(0); d < 9; d++ {
		if d.String() == s {
			return d
		}
	}
	return 0
}
