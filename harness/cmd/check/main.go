// Command check is the driver behind /verif/check: it rebuilds the property test binary
// from /repo's current working tree, replays saved cases, runs the property's test
// function in parallel shards (and, in the thorough tier, its native fuzz targets),
// merges the evidence fragments and reports VIOLATION / KNOWN-FINDING lines.
//
// Exit codes: 0 held on everything explored; 1 violation; 2 inconclusive (build failure,
// timeout, worker death).
package main

import (
	"bytes"
	"context"
	"encoding/json"
	"fmt"
	"os"
	"os/exec"
	"path/filepath"
	"regexp"
	"sort"
	"strconv"
	"strings"
	"sync"
	"time"

	"verif/harness/ev"
)

// verifDir is the root of the verification tree (set by the check wrapper; snapshots made
// by `vp run` live elsewhere).
var verifDir = func() string {
	if d := os.Getenv("VERIF_DIR"); d != "" {
		return d
	}
	return "/verif"
}()

type propCfg struct {
	Race         bool
	Fuzz         []string // native fuzz targets (thorough tier)
	FuzzSeconds  int
	ShardsQuick  int
	ShardsThor   int
	TimeoutQuick time.Duration
	TimeoutThor  time.Duration
}

func cfgOf(id string) propCfg {
	c := propCfg{ShardsQuick: 16, ShardsThor: 16, TimeoutQuick: 10 * time.Minute, TimeoutThor: 120 * time.Minute, FuzzSeconds: 300}
	switch id {
	case "C07", "C08", "C11":
		c.Fuzz = []string{"Fuzz" + id}
	case "C12":
		c.Fuzz = []string{"FuzzC12"}
		c.FuzzSeconds = 600
	case "C19":
		c.Fuzz = []string{"FuzzC19"}
	case "C16":
		c.Race = true
		c.ShardsQuick, c.ShardsThor = 16, 16
	}
	return c
}

var validID = regexp.MustCompile(`^C(0[1-9]|1[0-9]|20)$`)

func die2(format string, a ...any) {
	fmt.Fprintf(os.Stderr, "check: "+format+"\n", a...)
	fmt.Printf("INCONCLUSIVE " + fmt.Sprintf(format, a...) + "\n")
	os.Exit(2)
}

func goEnv(extra ...string) []string {
	env := os.Environ()
	env = append(env, "GOFLAGS=-mod=mod", "GOPROXY=off", "GOSUMDB=off", "GOTOOLCHAIN=local")
	return append(env, extra...)
}

func main() {
	args := os.Args[1:]
	if len(args) < 2 {
		fmt.Fprintln(os.Stderr, "usage: check <ID> quick|thorough | check <ID> --replay <file> [--repo DIR]")
		os.Exit(2)
	}
	id := args[0]
	if !validID.MatchString(id) {
		die2("unknown property id %q", id)
	}
	tier := ""
	replayFile := ""
	repo := "/repo"
	fuzzOverride := -1
	onlyFuzz := false
	keepCorpus := false
	for i := 1; i < len(args); i++ {
		switch args[i] {
		case "quick", "thorough":
			tier = args[i]
		case "--replay":
			i++
			replayFile = args[i]
		case "--repo":
			i++
			repo = args[i]
		case "--only-fuzz":
			onlyFuzz = true
		case "--keep-corpus": // maintenance: copy what the campaign found interesting into the committed seed corpus
			keepCorpus = true
		case "--fuzztime":
			i++
			fuzzOverride, _ = strconv.Atoi(args[i])
		default:
			die2("bad argument %q", args[i])
		}
	}
	if tier == "" && replayFile == "" {
		if t := os.Getenv("VERIF_TIER"); t == "quick" || t == "thorough" {
			tier = t
		} else {
			tier = "quick"
		}
	}
	seed := int64(1)
	if s := os.Getenv("VERIF_SEED"); s != "" {
		if v, err := strconv.ParseInt(s, 10, 64); err == nil {
			seed = v
		}
	}
	cfg := cfgOf(id)
	if fuzzOverride >= 0 {
		cfg.FuzzSeconds = fuzzOverride
	}
	start := time.Now()

	work, err := os.MkdirTemp(filepath.Join(verifDir, ".cache"), "run-"+id+"-")
	if err != nil {
		os.MkdirAll(filepath.Join(verifDir, ".cache"), 0o755)
		work, err = os.MkdirTemp(filepath.Join(verifDir, ".cache"), "run-"+id+"-")
		if err != nil {
			die2("cannot create work dir: %v", err)
		}
	}
	keepWork := os.Getenv("VERIF_KEEP") != ""
	defer func() {
		if !keepWork {
			os.RemoveAll(work)
		}
	}()
	exit := func(code int) {
		if !keepWork {
			os.RemoveAll(work)
		}
		os.Exit(code)
	}

	bin := filepath.Join(work, "props.test")
	if cfg.Race {
		raceLogDir = work
	}
	if msg := build(bin, repo, work, cfg.Race, false); msg != "" {
		fmt.Fprintln(os.Stderr, msg)
		fmt.Printf("INCONCLUSIVE property=%s build of harness against %s failed\n", id, repo)
		exit(2)
	}

	replayDir := filepath.Join(verifDir, "replay", id)
	if repo != "/repo" { // self-test runs against scratch copies keep their replay files apart
		replayDir = filepath.Join(verifDir, ".cache", "selftest-replay", id)
	}
	kf := filepath.Join(verifDir, "known_findings.json")

	// ---- replay mode ---------------------------------------------------------
	if replayFile != "" {
		abs, _ := filepath.Abs(replayFile)
		frag := filepath.Join(work, "replay.frag")
		out, code := runTest(bin, work, []string{"-test.run", "^TestReplay$", "-test.v"}, []string{
			"VERIF_REPLAY_FILES=" + abs, "VERIF_REPLAY_PROPERTY=" + id, "VERIF_FRAG=" + frag, "VERIF_KF=" + kf, "VERIF_TIER=quick",
		}, 10*time.Minute)
		f, ok := readFrag(frag)
		if ok && len(f.Violations) > 0 {
			for _, v := range f.Violations {
				fmt.Printf("VIOLATION property=%s replay=%s\n", id, v.Replay)
				fmt.Println(indent(v.Msg))
			}
			exit(1)
		}
		if code != 0 || !ok {
			fmt.Println(tail(out, 40))
			fmt.Printf("INCONCLUSIVE property=%s replay run failed (exit %d)\n", id, code)
			exit(2)
		}
		fmt.Printf("OK property=%s replay=%s holds\n", id, abs)
		exit(0)
	}

	// ---- saved replay files first ---------------------------------------------
	var violations []ev.Violation
	saved, _ := filepath.Glob(filepath.Join(replayDir, "*.json"))
	sort.Strings(saved)
	preexisting := map[string]bool{}
	for _, f := range saved {
		preexisting[f] = true
	}
	replayed := 0
	if len(saved) > 0 {
		frag := filepath.Join(work, "replay.frag")
		out, code := runTest(bin, work, []string{"-test.run", "^TestReplay$"}, []string{
			"VERIF_REPLAY_FILES=" + strings.Join(saved, "\n"), "VERIF_REPLAY_PROPERTY=" + id, "VERIF_FRAG=" + frag, "VERIF_KF=" + kf, "VERIF_TIER=" + tier,
		}, 10*time.Minute)
		f, ok := readFrag(frag)
		if ok {
			violations = append(violations, f.Violations...)
			replayed = int(f.Evaluations)
		}
		if !ok || (code != 0 && len(f.Violations) == 0) {
			// the replay process died without a fragment: replay the files one process each; a
			// file under which the runtime kills the process (fatal error, fatal signal, panic
			// outside the guard) reproduces its violation that way
			stillBad := false
			for k, sf := range saved {
				frag1 := filepath.Join(work, fmt.Sprintf("replay-%d.frag", k))
				out1, code1 := runTest(bin, work, []string{"-test.run", "^TestReplay$"}, []string{
					"VERIF_REPLAY_FILES=" + sf, "VERIF_REPLAY_PROPERTY=" + id, "VERIF_FRAG=" + frag1, "VERIF_KF=" + kf, "VERIF_TIER=" + tier,
				}, 10*time.Minute)
				f1, ok1 := readFrag(frag1)
				switch {
				case ok1 && (code1 == 0 || len(f1.Violations) > 0):
					violations = append(violations, f1.Violations...)
					replayed += int(f1.Evaluations)
				case code1 != -2 && (strings.Contains(out1, "fatal error:") || strings.Contains(out1, "unexpected signal") || strings.Contains(out1, "panic:") || strings.Contains(out1, "DATA RACE")):
					violations = append(violations, ev.Violation{Replay: sf, Msg: "the process replaying this file was killed by the Go runtime:\n" + firstFatal(out1)})
				default:
					fmt.Println(tail(out1, 40))
					stillBad = true
				}
			}
			if stillBad && len(violations) == 0 {
				fmt.Println(tail(out, 40))
				fmt.Printf("INCONCLUSIVE property=%s replay stage failed (exit %d)\n", id, code)
				exit(2)
			}
		}
	}

	// ---- shards ------------------------------------------------------------------
	n := cfg.ShardsQuick
	timeout := cfg.TimeoutQuick
	if tier == "thorough" {
		n = cfg.ShardsThor
		timeout = cfg.TimeoutThor
	}
	if s := os.Getenv("VERIF_SHARDS"); s != "" {
		if v, err := strconv.Atoi(s); err == nil && v > 0 {
			n = v
		}
	}
	type res struct {
		out  string
		code int
		frag ev.Fragment
		ok   bool
	}
	if onlyFuzz { // background fuzz campaigns: skip the shard stage (evidence is not written)
		n = 0
		tier = "thorough"
	}
	results := make([]res, n)
	var wg sync.WaitGroup
	for i := 0; i < n; i++ {
		wg.Add(1)
		go func(i int) {
			defer wg.Done()
			frag := filepath.Join(work, fmt.Sprintf("shard%02d.frag", i))
			cwd := filepath.Join(work, fmt.Sprintf("cwd%02d", i))
			os.MkdirAll(cwd, 0o755)
			out, code := runTest(bin, cwd, []string{"-test.run", "^Test" + id + "$", "-test.timeout", (timeout + time.Minute).String()}, []string{
				"VERIF_TIER=" + tier, "VERIF_SEED=" + strconv.FormatInt(seed, 10),
				"VERIF_SHARD=" + strconv.Itoa(i), "VERIF_SHARDS=" + strconv.Itoa(n),
				"VERIF_FRAG=" + frag, "VERIF_REPLAY_DIR=" + replayDir, "VERIF_KF=" + kf,
				"VERIF_CURRENT_CASE=" + filepath.Join(work, fmt.Sprintf("shard%02d.current", i)),
			}, timeout+2*time.Minute)
			f, ok := readFrag(frag)
			results[i] = res{out, code, f, ok}
		}(i)
	}
	wg.Wait()

	inconclusive := ""
	var frags []ev.Fragment
	var hashFiles []string
	for i, r := range results {
		if !r.ok || !r.frag.Done {
			// a process killed by the Go runtime while running a recorded case (concurrent map
			// access, unrecovered panic in a goroutine of the library): the case is the violation
			cur := filepath.Join(work, fmt.Sprintf("shard%02d.current", i))
			if data, err := os.ReadFile(cur); err == nil && r.code != -2 && (strings.Contains(r.out, "fatal error:") || strings.Contains(r.out, "unexpected signal") || strings.Contains(r.out, "DATA RACE") || strings.Contains(r.out, "panic:")) {
				os.MkdirAll(replayDir, 0o755)
				rf := map[string]any{"property": id, "kind": "workload", "msg": tail(r.out, 8), "case": json.RawMessage(data)}
				b, _ := json.MarshalIndent(rf, "", " ")
				path := filepath.Join(replayDir, fmt.Sprintf("workload-crash-%016x.json", ev.Hash(string(data))))
				os.WriteFile(path, b, 0o644)
				violations = append(violations, ev.Violation{Replay: path, Msg: "test process killed by the Go runtime during this workload:\n" + firstFatal(r.out)})
				continue
			}
			inconclusive = fmt.Sprintf("shard %d did not finish (exit %d)", i, r.code)
			fmt.Fprintln(os.Stderr, tail(r.out, 60))
			continue
		}
		frags = append(frags, r.frag)
		hashFiles = append(hashFiles, filepath.Join(work, fmt.Sprintf("shard%02d.frag.hashes", i)))
		violations = append(violations, r.frag.Violations...)
		if r.code != 0 && len(r.frag.Violations) == 0 {
			inconclusive = fmt.Sprintf("shard %d failed without recording a violation (exit %d)", i, r.code)
			fmt.Fprintln(os.Stderr, tail(r.out, 60))
		}
	}

	// ---- native fuzzing (thorough) --------------------------------------------------
	fuzzStats := map[string]any{}
	if tier == "thorough" && len(cfg.Fuzz) > 0 && cfg.FuzzSeconds > 0 && len(violations) == 0 {
		fbin := filepath.Join(work, "props.fuzz.test")
		if msg := build(fbin, repo, work, false, true); msg != "" {
			fmt.Fprintln(os.Stderr, msg)
			fmt.Printf("INCONCLUSIVE property=%s build of the instrumented fuzz binary failed\n", id)
			exit(2)
		}
		for _, target := range cfg.Fuzz {
			st, viol, inc := runFuzz(fbin, work, id, target, cfg.FuzzSeconds, replayDir, kf)
			fuzzStats[target] = st
			if keepCorpus && len(viol) == 0 && repo == "/repo" {
				n := keepFuzzCorpus(work, target)
				fmt.Fprintf(os.Stderr, "kept %d corpus files of %s\n", n, target)
			}
			violations = append(violations, viol...)
			if inc != "" {
				inconclusive = inc
			}
		}
	}

	// ---- merge and write evidence -----------------------------------------------------
	wall := time.Since(start).Seconds()
	evd, known := merge(id, tier, seed, frags, hashFiles, replayed, fuzzStats, violations, wall)
	os.MkdirAll(filepath.Join(verifDir, "evidence"), 0o755)
	b, _ := json.MarshalIndent(evd, "", " ")
	if repo == "/repo" && !onlyFuzz { // evidence describes /repo only; self-test runs against scratch copies do not write it
		if err := os.WriteFile(filepath.Join(verifDir, "evidence", id+".json"), append(b, '\n'), 0o644); err != nil {
			die2("cannot write evidence: %v", err)
		}
	}

	cov := evd["coverage"].(map[string]any)
	fmt.Printf("property=%s tier=%s seed=%d shards=%d evaluations=%v distinct_nontrivial=%v wall=%.1fs\n", id, tier, seed, n, cov["evaluations"], cov["distinct_nontrivial"], wall)
	for _, k := range known {
		fmt.Println(k)
	}
	if len(violations) > 0 {
		// report (and keep the replay files of) at most maxReported distinct violations
		const maxReported = 3
		seen := map[string]bool{}
		for _, v := range violations {
			if seen[v.Replay] {
				continue
			}
			seen[v.Replay] = true
			if len(seen) > maxReported {
				if !preexisting[v.Replay] {
					os.Remove(v.Replay)
				}
				continue
			}
			fmt.Printf("VIOLATION property=%s replay=%s\n", id, v.Replay)
			fmt.Println(indent(v.Msg))
		}
		if len(seen) > maxReported {
			fmt.Printf("(%d further violating cases not listed)\n", len(seen)-maxReported)
		}
		exit(1)
	}
	if inconclusive != "" {
		fmt.Printf("INCONCLUSIVE property=%s %s\n", id, inconclusive)
		exit(2)
	}
	exit(0)
}

func firstFatal(out string) string {
	for _, l := range strings.Split(out, "\n") {
		if strings.Contains(l, "fatal error:") || strings.Contains(l, "unexpected signal") || strings.Contains(l, "DATA RACE") || strings.HasPrefix(l, "panic:") {
			return strings.TrimSpace(l)
		}
	}
	return tail(out, 3)
}

func indent(s string) string { return "    " + strings.ReplaceAll(s, "\n", "\n    ") }

func tail(s string, n int) string {
	l := strings.Split(strings.TrimRight(s, "\n"), "\n")
	if len(l) > n {
		l = l[len(l)-n:]
	}
	return strings.Join(l, "\n")
}

// build compiles harness/props against the given repo directory.
func build(bin, repo, work string, race, fuzz bool) string {
	harness := filepath.Join(verifDir, "harness")
	args := []string{"test", "-c", "-vet=off", "-o", bin}
	if race {
		args = append(args, "-race")
	}
	if fuzz { // coverage instrumentation for native fuzzing
		args = append(args, "-fuzz=Fuzz")
	}
	if repo != "/repo" {
		mod, err := os.ReadFile(filepath.Join(harness, "go.mod"))
		if err != nil {
			return err.Error()
		}
		alt := strings.Replace(string(mod), "=> /repo", "=> "+repo, 1)
		mf := filepath.Join(work, "alt.mod")
		os.WriteFile(mf, []byte(alt), 0o644)
		sum, _ := os.ReadFile(filepath.Join(harness, "go.sum"))
		os.WriteFile(filepath.Join(work, "alt.sum"), sum, 0o644)
		args = append(args, "-modfile", mf)
	}
	run := func(extra ...string) ([]byte, error) {
		a := append(append([]string(nil), args...), extra...)
		a = append(a, "./props")
		cmd := exec.Command("go", a...)
		cmd.Dir = harness
		cmd.Env = goEnv()
		return cmd.CombinedOutput()
	}
	out, err := run()
	if err != nil && strings.Contains(string(out), "c20_weights_test.go") {
		// the weight accessors (Value methods) of the tree under test have another shape than
		// the harness binds: leave that file out, so that every check but C20 still runs
		if out2, err2 := run("-tags", "noweights"); err2 == nil {
			fmt.Fprintf(os.Stderr, "note: harness built without the weight accessors (they do not compile against this tree):\n%s\n", tail(string(out), 6))
			return ""
		} else {
			out = append(out, out2...)
		}
	}
	if err != nil {
		return fmt.Sprintf("go %s: %v\n%s", strings.Join(args, " "), err, out)
	}
	return ""
}

var raceLogDir string // set when the property's binary is built with -race

func runTest(bin, cwd string, args, env []string, timeout time.Duration) (string, int) {
	ctx, cancel := context.WithTimeout(context.Background(), timeout)
	defer cancel()
	cmd := exec.CommandContext(ctx, bin, args...)
	cmd.Dir = cwd
	cmd.Env = append(os.Environ(), env...)
	if raceLogDir != "" {
		prefix := filepath.Join(raceLogDir, fmt.Sprintf("race-%d", time.Now().UnixNano()))
		cmd.Env = append(cmd.Env, "GORACE=log_path="+prefix+" halt_on_error=0", "VERIF_RACE_LOG="+prefix)
	}
	var buf bytes.Buffer
	cmd.Stdout = &buf
	cmd.Stderr = &buf
	err := cmd.Run()
	code := 0
	if err != nil {
		code = -1
		if ee, ok := err.(*exec.ExitError); ok {
			code = ee.ExitCode()
		}
	}
	if ctx.Err() != nil {
		code = -2
	}
	return buf.String(), code
}

func readFrag(path string) (ev.Fragment, bool) {
	var f ev.Fragment
	b, err := os.ReadFile(path)
	if err != nil {
		return f, false
	}
	if json.Unmarshal(b, &f) != nil {
		return f, false
	}
	return f, true
}

var (
	reFuzzLine = regexp.MustCompile(`execs: (\d+) \(\d+/sec\)(?:, new interesting: (\d+) \(total: (\d+)\))?`)
	reFuzzFail = regexp.MustCompile(`Failing input written to (\S+)`)
)

// keepFuzzCorpus copies the inputs the fuzz engine kept (new coverage on the unchanged
// tree) into harness/props/testdata/fuzz/<target>, where runFuzz finds them as seeds.
// Inputs larger than 4 KiB are left out; the directory is capped at 4,000 files.
func keepFuzzCorpus(work, target string) int {
	dst := filepath.Join(verifDir, "harness", "props", "testdata", "fuzz", target)
	os.MkdirAll(dst, 0o755)
	have, _ := os.ReadDir(dst)
	n := 0
	filepath.WalkDir(filepath.Join(work, "fuzzcache-"+target), func(path string, d os.DirEntry, err error) error {
		if err != nil || d.IsDir() || len(have)+n >= 4000 {
			return nil
		}
		b, err := os.ReadFile(path)
		if err != nil || len(b) > 4096 || !strings.HasPrefix(string(b), "go test fuzz v1") {
			return nil
		}
		out := filepath.Join(dst, d.Name())
		if _, err := os.Stat(out); err != nil {
			if os.WriteFile(out, b, 0o644) == nil {
				n++
			}
		}
		return nil
	})
	return n
}

// runFuzz runs one native fuzz target for a fixed time in a private directory.
func runFuzz(bin, work, id, target string, seconds int, replayDir, kf string) (map[string]any, []ev.Violation, string) {
	cwd := filepath.Join(work, "fuzz-"+target)
	os.MkdirAll(cwd, 0o755)
	cache := filepath.Join(work, "fuzzcache-"+target)
	os.MkdirAll(cache, 0o755)
	// the committed seed corpus (if any) is made visible to the target
	src := filepath.Join(verifDir, "harness", "props", "testdata", "fuzz", target)
	if ents, err := os.ReadDir(src); err == nil {
		dst := filepath.Join(cwd, "testdata", "fuzz", target)
		os.MkdirAll(dst, 0o755)
		for _, e := range ents {
			if b, err := os.ReadFile(filepath.Join(src, e.Name())); err == nil {
				os.WriteFile(filepath.Join(dst, e.Name()), b, 0o644)
			}
		}
	}
	frag := filepath.Join(work, "fuzz-"+target+".frag")
	fuzzTmp := filepath.Join(work, "tmp-"+target) // the fuzz engine's scratch files stay inside the work directory
	os.MkdirAll(fuzzTmp, 0o755)
	out, code := runTest(bin, cwd, []string{
		"-test.run", "^$", "-test.fuzz", "^" + target + "$", "-test.fuzztime", fmt.Sprintf("%ds", seconds),
		"-test.fuzzcachedir", cache, "-test.timeout", "0",
	}, []string{"VERIF_TIER=thorough", "VERIF_FRAG=" + frag, "VERIF_REPLAY_DIR=" + replayDir, "VERIF_KF=" + kf, "VERIF_FUZZ=1", "TMPDIR=" + fuzzTmp},
		time.Duration(seconds)*time.Second+5*time.Minute)
	st := map[string]any{"seconds": seconds}
	if ms := reFuzzLine.FindAllStringSubmatch(out, -1); len(ms) > 0 {
		last := ms[len(ms)-1]
		e, _ := strconv.ParseInt(last[1], 10, 64)
		st["execs"] = e
		if last[3] != "" {
			c, _ := strconv.ParseInt(last[3], 10, 64)
			st["corpus_total"] = c
		}
	}
	var viol []ev.Violation
	if m := reFuzzFail.FindStringSubmatch(out); m != nil {
		crasher := filepath.Join(cwd, m[1])
		data, _ := os.ReadFile(crasher)
		os.MkdirAll(replayDir, 0o755)
		rf := map[string]any{"property": id, "kind": "fuzz/" + target, "msg": tail(out, 12), "case": map[string]string{"corpus_file": string(data)}}
		b, _ := json.MarshalIndent(rf, "", " ")
		path := filepath.Join(replayDir, fmt.Sprintf("fuzz-%s-%016x.json", target, ev.Hash(string(data))))
		os.WriteFile(path, b, 0o644)
		viol = append(viol, ev.Violation{Replay: path, Msg: tail(out, 12)})
		return st, viol, ""
	}
	if code != 0 {
		fmt.Fprintln(os.Stderr, tail(out, 40))
		return st, nil, fmt.Sprintf("fuzz target %s exited with %d without a failing input", target, code)
	}
	return st, nil, ""
}

// merge builds the evidence document from the fragments.
func merge(id, tier string, seed int64, frags []ev.Fragment, hashFiles []string, replayed int, fuzz map[string]any, violations []ev.Violation, wall float64) (map[string]any, []string) {
	var evals, enumNT int64
	classes := map[string]int64{}
	stages := map[string]ev.Stage{}
	known := map[string]int64{}
	knownEx := map[string]string{}
	extra := map[string]any{}
	var samples []any
	rule := ""
	exhaustive := map[string]bool{}
	var assumptions []string
	for _, f := range frags {
		evals += f.Evaluations
		enumNT += f.EnumNT
		for k, v := range f.Classes {
			classes[k] += v
		}
		for k, v := range f.Stages {
			s := stages[k]
			s.Evaluations += v.Evaluations
			s.Nontrivial += v.Nontrivial
			s.Requested += v.Requested
			stages[k] = s
		}
		for k, v := range f.KnownHits {
			known[k] += v
		}
		for k, v := range f.KnownEx {
			if _, ok := knownEx[k]; !ok {
				knownEx[k] = v
			}
		}
		for k, v := range f.Extra {
			if n, ok := v.(float64); ok {
				if cur, ok2 := extra[k].(float64); ok2 {
					extra[k] = cur + n
				} else if _, exists := extra[k]; !exists {
					extra[k] = n
				}
			} else if _, exists := extra[k]; !exists {
				extra[k] = v
			}
		}
		if len(samples) < 16 {
			for _, s := range f.Samples {
				if len(samples) < 16 {
					samples = append(samples, s)
				}
			}
		}
		if f.Rule != "" {
			rule = f.Rule
		}
		for _, e := range f.Exhaustive {
			exhaustive[e] = true
		}
		if len(f.Assumptions) > 0 {
			assumptions = f.Assumptions
		}
	}
	// union of the hash sets = distinct non-trivial generated cases
	set := map[uint64]struct{}{}
	for _, hf := range hashFiles {
		hs, err := ev.ReadHashes(hf)
		if err != nil {
			continue
		}
		for _, h := range hs {
			set[h] = struct{}{}
		}
	}
	distinct := enumNT + int64(len(set))
	if len(samples) == 0 {
		samples = []any{}
	}
	var exh []string
	for e := range exhaustive {
		exh = append(exh, e)
	}
	sort.Strings(exh)
	incomplete := []string{}
	for k, s := range stages {
		if s.Requested > 0 && s.Evaluations < s.Requested {
			incomplete = append(incomplete, fmt.Sprintf("%s: %d of %d requested cases ran", k, s.Evaluations, s.Requested))
		}
	}
	sort.Strings(incomplete)
	cov := map[string]any{
		"evaluations":         evals + int64(replayed),
		"distinct_nontrivial": distinct,
		"distinct_generated":  len(set),
		"distinct_enumerated": enumNT,
		"rule":                rule,
		"samples":             samples,
		"exhaustive":          len(exh) > 0 && len(violations) == 0,
		"exhaustive_domains":  exh,
		"classes":             classes,
		"stages":              stages,
		"replayed_files":      replayed,
		"known_findings_hit":  known,
	}
	if len(incomplete) > 0 {
		cov["incomplete_stages"] = incomplete
	}
	if len(fuzz) > 0 {
		cov["fuzz"] = fuzz
		for _, v := range fuzz {
			if m, ok := v.(map[string]any); ok {
				if e, ok := m["execs"].(int64); ok {
					cov["evaluations"] = cov["evaluations"].(int64) + e
				}
			}
		}
	}
	for k, v := range extra {
		cov[k] = v
	}
	doc := map[string]any{
		"property_id": id,
		"tier":        tier,
		"seed":        seed,
		"level":       "exploration",
		"coverage":    cov,
		"assumptions": assumptions,
		"wall_s":      wall,
		"violations":  len(violations),
	}
	var lines []string
	var ids []string
	for k := range known {
		ids = append(ids, k)
	}
	sort.Strings(ids)
	for _, k := range ids {
		lines = append(lines, fmt.Sprintf("KNOWN-FINDING: property=%s %s (listed inputs hit %d times; e.g. %s)", id, k, known[k], knownEx[k]))
	}
	return doc, lines
}
