package spec

import (
	"math/big"
	"math/bits"
	"sync"
)

// Exact CVSS v2 scoring. Because round_to_1_decimal of an exact half may go to either
// neighbour (the properties say so), every result is a *set* of admissible tenths.
//
// Index conventions (positions in the Codes slices of V2Metrics):
//   B = AV, AC, Au, C, I, A      T = E, RL, RC      E = CDP, TD, CR, IR, AR

const tsOff = 16 // tenths -16 .. 111 are representable

// TSet is a set of scores in tenths.
type TSet struct{ lo, hi uint64 }

func (s TSet) With(t int) TSet {
	b := t + tsOff
	if b < 0 || b > 127 {
		panic("tenth out of TSet range")
	}
	if b < 64 {
		s.lo |= 1 << uint(b)
	} else {
		s.hi |= 1 << uint(b-64)
	}
	return s
}
func (s TSet) Has(t int) bool {
	b := t + tsOff
	if b < 0 || b > 127 {
		return false
	}
	if b < 64 {
		return s.lo&(1<<uint(b)) != 0
	}
	return s.hi&(1<<uint(b-64)) != 0
}
func (s TSet) Union(o TSet) TSet { return TSet{s.lo | o.lo, s.hi | o.hi} }
func (s TSet) Len() int          { return bits.OnesCount64(s.lo) + bits.OnesCount64(s.hi) }
func (s TSet) Empty() bool       { return s.lo == 0 && s.hi == 0 }
func (s TSet) Elems() []int {
	var r []int
	for b := 0; b < 128; b++ {
		if s.Has(b - tsOff) {
			r = append(r, b-tsOff)
		}
	}
	return r
}
func (s TSet) HasNegative() bool { return s.lo&((1<<tsOff)-1) != 0 }

// Map applies f to every element and unions the results.
func (s TSet) Map(f func(int) TSet) TSet {
	var r TSet
	for _, e := range s.Elems() {
		r = r.Union(f(e))
	}
	return r
}

var (
	v2B = UpTo(V2Metrics, Base)
	v2T = OfLevel(V2Metrics, Temporal)
	v2E = OfLevel(V2Metrics, Environmental)
)

func V2B() []*Metric { return v2B }
func V2T() []*Metric { return v2T }
func V2E() []*Metric { return v2E }

// Round1Set: round-to-one-decimal of an exact value; an exact half yields both
// neighbours.
func Round1Set(x *big.Rat) TSet {
	y := add(mul(x, ten), big.NewRat(1, 2))
	f := floorRat(y)
	var s TSet
	s = s.With(int(f))
	if new(big.Rat).SetInt64(f).Cmp(y) == 0 {
		s = s.With(int(f - 1))
	}
	return s
}

// round1Int rounds n/d (d > 0) to the nearest integer, both neighbours on a half.
func round1Int(n, d int64) TSet {
	num := 2*n + d
	den := 2 * d
	q := num / den
	r := num % den
	if r < 0 { // floor division
		q--
		r += den
	}
	var s TSet
	s = s.With(int(q))
	if r == 0 {
		s = s.With(int(q - 1))
	}
	return s
}

// v2BaseEq evaluates ((0.6*Impact)+(0.4*Exploitability)-1.5)*f(Impact) exactly.
func v2BaseEq(impact, expl *big.Rat) *big.Rat {
	if impact.Sign() == 0 {
		return new(big.Rat)
	}
	return mul(sub(add(mul(R("0.6"), impact), mul(R("0.4"), expl)), R("1.5")), R("1.176"))
}

func v2Expl(b [6]int) *big.Rat {
	return mul(big.NewRat(20, 1), R(v2B[0].Weights[b[0]]), R(v2B[1].Weights[b[1]]), R(v2B[2].Weights[b[2]]))
}

func v2Impact(b [6]int, cr, ir, ar *big.Rat) *big.Rat {
	return mul(R("10.41"), sub(one, mul(
		sub(one, mul(R(v2B[3].Weights[b[3]]), cr)),
		sub(one, mul(R(v2B[4].Weights[b[4]]), ir)),
		sub(one, mul(R(v2B[5].Weights[b[5]]), ar)))))
}

// V2BaseExact returns the exact (unrounded) base equation value.
func V2BaseExact(b [6]int) *big.Rat {
	return v2BaseEq(v2Impact(b, one, one, one), v2Expl(b))
}

// V2Base returns the admissible base tenths.
func V2Base(b [6]int) TSet { return Round1Set(V2BaseExact(b)) }

var v2THundredths [3][]int64
var v2CDPTenths, v2TDHundredths []int64

func init() {
	for m := 0; m < 3; m++ {
		for _, w := range v2T[m].Weights {
			v2THundredths[m] = append(v2THundredths[m], floorRat(mul(R(w), big.NewRat(100, 1))))
		}
	}
	for _, w := range v2E[0].Weights {
		v2CDPTenths = append(v2CDPTenths, floorRat(mul(R(w), ten)))
	}
	for _, w := range v2E[1].Weights {
		v2TDHundredths = append(v2TDHundredths, floorRat(mul(R(w), big.NewRat(100, 1))))
	}
}

// V2TemporalOf applies round1(score × E × RL × RC) to one score in tenths.
func V2TemporalOf(k int, t [3]int) TSet {
	n := int64(k) * v2THundredths[0][t[0]] * v2THundredths[1][t[1]] * v2THundredths[2][t[2]]
	return round1Int(n, 1000000)
}

// V2Temporal: admissible temporal tenths; hasT=false means the group is absent.
func V2Temporal(b [6]int, hasT bool, t [3]int) TSet {
	bs := V2Base(b)
	if !hasT {
		return bs
	}
	return bs.Map(func(k int) TSet { return V2TemporalOf(k, t) })
}

// V2EnvOf applies round1((AT + (10-AT)×CDP)×TD) to one adjusted temporal score.
func V2EnvOf(at int, cdp, td int) TSet {
	a := int64(at)
	n := (10*a + (100-a)*v2CDPTenths[cdp]) * v2TDHundredths[td]
	return round1Int(n, 1000)
}

var (
	adjOnce sync.Once
	// adjTab[base index 0..728][cr][ir][ar]: admissible adjusted-base tenths (with the
	// 0 alternative when the equation is negative); adjNeg marks a negative equation.
	adjTab [729][4][4][4]TSet
	adjNeg [729][4][4][4]bool
	adjCap [729][4][4][4]bool
)

// V2BaseIndex packs the six base indices.
func V2BaseIndex(b [6]int) int {
	return ((((b[0]*3+b[1])*3+b[2])*3+b[3])*3+b[4])*3 + b[5]
}

func V2BaseFromIndex(i int) [6]int {
	var b [6]int
	for k := 5; k >= 0; k-- {
		b[k] = i % 3
		i /= 3
	}
	return b
}

func buildAdj() {
	for bi := 0; bi < 729; bi++ {
		b := V2BaseFromIndex(bi)
		ex := v2Expl(b)
		for cr := 0; cr < 4; cr++ {
			for ir := 0; ir < 4; ir++ {
				for ar := 0; ar < 4; ar++ {
					raw := v2Impact(b, R(v2E[2].Weights[cr]), R(v2E[3].Weights[ir]), R(v2E[4].Weights[ar]))
					adjCap[bi][cr][ir][ar] = raw.Cmp(ten) > 0
					eq := v2BaseEq(minR(raw, ten), ex)
					s := Round1Set(eq)
					if eq.Sign() < 0 {
						adjNeg[bi][cr][ir][ar] = true
						s = s.With(0)
					}
					adjTab[bi][cr][ir][ar] = s
				}
			}
		}
	}
}

// V2AdjustedBase returns the admissible adjusted-base tenths for base b and requirement
// indices (into CR/IR/AR codes L, M, H, ND), whether the exact equation is negative and
// whether the min(10, .) cap binds.
func V2AdjustedBase(b [6]int, cr, ir, ar int) (TSet, bool, bool) {
	adjOnce.Do(buildAdj)
	bi := V2BaseIndex(b)
	return adjTab[bi][cr][ir][ar], adjNeg[bi][cr][ir][ar], adjCap[bi][cr][ir][ar]
}

// clamp0 adds 0 to a set that contains a negative tenth ("that negative tenth or 0").
func clamp0(s TSet) TSet {
	if s.HasNegative() {
		return s.With(0)
	}
	return s
}

// V2EnvFromAdjusted propagates a set of adjusted-base tenths through the temporal and
// environmental equations.
func V2EnvFromAdjusted(adj TSet, hasT bool, t [3]int, cdp, td int) TSet {
	at := clamp0(adj)
	if hasT {
		at = clamp0(at.Map(func(k int) TSet { return V2TemporalOf(k, t) }))
	}
	return clamp0(at.Map(func(k int) TSet { return V2EnvOf(k, cdp, td) }))
}

// V2Env: admissible environmental tenths. hasE=false: equals the temporal score.
// e = CDP, TD, CR, IR, AR indices. The bool reports whether a negative equation value
// occurred anywhere in the chain (then the severity is unspecified).
func V2Env(b [6]int, hasT bool, t [3]int, hasE bool, e [5]int) (TSet, bool) {
	if !hasE {
		return V2Temporal(b, hasT, t), false
	}
	adj, _, _ := V2AdjustedBase(b, e[2], e[3], e[4])
	r := V2EnvFromAdjusted(adj, hasT, t, e[0], e[1])
	return r, adj.HasNegative() || r.HasNegative()
}

// V2SeverityOf10 is the v2 (NVD) rating band of a score in tenths.
func V2SeverityOf10(k int) string {
	switch {
	case k >= 0 && k <= 39:
		return "Low"
	case k >= 40 && k <= 69:
		return "Medium"
	case k >= 70 && k <= 100:
		return "High"
	}
	return "out-of-range"
}
