package spec

import "testing"

func BenchmarkBuildEnv(b *testing.B) {
	for i := 0; i < b.N; i++ {
		buildEnv()
	}
}
func BenchmarkBuildBase(b *testing.B) {
	for i := 0; i < b.N; i++ {
		buildBase()
	}
}
func BenchmarkBuildAdj(b *testing.B) {
	for i := 0; i < b.N; i++ {
		buildAdj()
	}
}
