package spec

import (
	"math/big"
	"sync"
	"sync/atomic"
)

// Exact CVSS v3.0 / v3.1 scoring. All results are integers in tenths.
//
// Index conventions (positions in the Codes slices of V3Metrics):
//   B = AV, AC, PR, UI, S, C, I, A        T = E, RL, RC
//   E = CR, IR, AR, MAV, MAC, MPR, MUI, MS, MC, MI, MA
// Version index: 0 = "3.0", 1 = "3.1".

type V3Idx struct {
	Ver int
	B   [8]int
	T   [3]int
	E   [11]int
}

var (
	v3B = UpTo(V3Metrics, Base)
	v3T = OfLevel(V3Metrics, Temporal)
	v3E = OfLevel(V3Metrics, Environmental)
)

// V3B / V3T / V3E expose the metric lists in index order.
func V3B() []*Metric { return v3B }
func V3T() []*Metric { return v3T }
func V3E() []*Metric { return v3E }

var (
	one  = big.NewRat(1, 1)
	ten  = big.NewRat(10, 1)
	zero = new(big.Rat)
)

func mul(a ...*big.Rat) *big.Rat {
	r := new(big.Rat).Set(a[0])
	for _, x := range a[1:] {
		r.Mul(r, x)
	}
	return r
}
func add(a, b *big.Rat) *big.Rat { return new(big.Rat).Add(a, b) }
func sub(a, b *big.Rat) *big.Rat { return new(big.Rat).Sub(a, b) }
func minR(a, b *big.Rat) *big.Rat {
	if a.Cmp(b) <= 0 {
		return a
	}
	return b
}
func powR(a *big.Rat, n int) *big.Rat {
	// a is in lowest terms, hence so is num^n / den^n
	e := big.NewInt(int64(n))
	num := new(big.Int).Exp(a.Num(), e, nil)
	den := new(big.Int).Exp(a.Denom(), e, nil)
	return new(big.Rat).SetFrac(num, den)
}

// fracTenths evaluates both Roundup readings on the exact non-negative fraction num/den
// (not necessarily in lowest terms) without normalising it.
func fracTenths(num, den *big.Int, ver int) int {
	// ceil(10*num/den)
	n10 := new(big.Int).Mul(num, big.NewInt(10))
	q, m := new(big.Int).DivMod(n10, den, new(big.Int))
	ceil := q.Int64()
	if m.Sign() != 0 {
		ceil++
	}
	// Appendix A: ii = floor(num*1e5/den + 1/2) = floor((2*num*1e5 + den) / (2*den))
	t := new(big.Int).Mul(num, big.NewInt(200000))
	t.Add(t, den)
	ii := new(big.Int).Div(t, new(big.Int).Mul(den, big.NewInt(2))).Int64()
	var app int64
	if ii%10000 == 0 {
		app = ii / 10000
	} else {
		app = ii/10000 + 1
	}
	if ceil != app {
		RoundupDisagreements.Add(1)
	}
	if ver == 0 {
		return int(ceil)
	}
	return int(app)
}

// floorRat returns floor(x) as an int64.
func floorRat(x *big.Rat) int64 {
	q := new(big.Int)
	m := new(big.Int)
	q.DivMod(x.Num(), x.Denom(), m) // Euclidean: m >= 0, so q = floor for positive denominators
	return q.Int64()
}

// CeilTenths: the v3.0 wording of Roundup — smallest number with one decimal >= x.
func CeilTenths(x *big.Rat) int {
	y := mul(x, ten)
	f := floorRat(y)
	if new(big.Rat).SetInt64(f).Cmp(y) == 0 {
		return int(f)
	}
	return int(f + 1)
}

// AppendixATenths: the v3.1 Appendix A algorithm evaluated on the exact value:
// int_input = round(x*100000); if int_input % 10000 == 0 then int_input/100000
// else (floor(int_input/10000)+1)/10.
func AppendixATenths(x *big.Rat) int {
	y := mul(x, big.NewRat(100000, 1))
	// round half away from zero; inputs are non-negative
	ii := floorRat(add(y, big.NewRat(1, 2)))
	if ii%10000 == 0 {
		return int(ii / 10000)
	}
	return int(ii/10000 + 1)
}

// RoundupTenths applies the Roundup reading of the vector's own version.
func RoundupTenths(x *big.Rat, ver int) int {
	if ver == 0 {
		return CeilTenths(x)
	}
	return AppendixATenths(x)
}

// RoundupDisagreements counts inputs on which the two readings differed while the
// tables were built (a self-check; measured 0 on the whole domain).
var RoundupDisagreements atomic.Int64

func roundupChecked(x *big.Rat, ver int) int {
	a, b := CeilTenths(x), AppendixATenths(x)
	if a != b {
		RoundupDisagreements.Add(1)
	}
	if ver == 0 {
		return a
	}
	return b
}

// impactFromISS evaluates the impact sub-score formula. envMode selects the
// environmental variants (v3.1 changed-scope polynomial differs only there).
func impactFromISS(iss *big.Rat, changed bool, ver int, envMode bool) *big.Rat {
	if !changed {
		return mul(R("6.42"), iss)
	}
	lin := mul(R("7.52"), sub(iss, R("0.029")))
	var p *big.Rat
	if envMode && ver == 1 {
		p = powR(sub(mul(iss, R("0.9731")), R("0.02")), 13)
	} else {
		p = powR(sub(iss, R("0.02")), 15)
	}
	return sub(lin, mul(R("3.25"), p))
}

// ---------------------------------------------------------------------------------
// Base

var (
	baseOnce sync.Once
	baseTab  [2][4][2][3][2][2][3][3][3]int8
)

func buildBase() {
	for ver := 0; ver < 2; ver++ {
		for s := 0; s < 2; s++ {
			changed := s == 1
			for c := 0; c < 3; c++ {
				for i := 0; i < 3; i++ {
					for a := 0; a < 3; a++ {
						iss := sub(one, mul(sub(one, R(v3B[5].Weights[c])), sub(one, R(v3B[6].Weights[i])), sub(one, R(v3B[7].Weights[a]))))
						imp := impactFromISS(iss, changed, ver, false)
						for av := 0; av < 4; av++ {
							for ac := 0; ac < 2; ac++ {
								for pr := 0; pr < 3; pr++ {
									for ui := 0; ui < 2; ui++ {
										var k int
										if imp.Sign() <= 0 {
											k = 0
										} else {
											ex := mul(R("8.22"), R(v3B[0].Weights[av]), R(v3B[1].Weights[ac]), v3B[2].Weight(v3B[2].Codes[pr], changed), R(v3B[3].Weights[ui]))
											sum := add(imp, ex)
											if changed {
												sum = mul(R("1.08"), sum)
											}
											k = roundupChecked(minR(sum, ten), ver)
										}
										baseTab[ver][av][ac][pr][ui][s][c][i][a] = int8(k)
									}
								}
							}
						}
					}
				}
			}
		}
	}
}

// V3Base10 returns the exact base score in tenths.
func V3Base10(ver int, b [8]int) int {
	baseOnce.Do(buildBase)
	return int(baseTab[ver][b[0]][b[1]][b[2]][b[3]][b[4]][b[5]][b[6]][b[7]])
}

// ---------------------------------------------------------------------------------
// Temporal: Roundup(base × E × RL × RC) on the rounded base, integer arithmetic.

var v3THundredths [3][]int

func init() {
	for m := 0; m < 3; m++ {
		for _, w := range v3T[m].Weights {
			v3THundredths[m] = append(v3THundredths[m], int(floorRat(mul(R(w), big.NewRat(100, 1)))))
		}
	}
}

// V3TemporalOf10 applies the temporal equation to a score already in tenths.
func V3TemporalOf10(k int, t [3]int, ver int) int {
	num := int64(k) * int64(v3THundredths[0][t[0]]) * int64(v3THundredths[1][t[1]]) * int64(v3THundredths[2][t[2]])
	// x*10 = num / 1e6
	ceil := int((num + 999999) / 1000000)
	ii := (num + 50) / 100 // round(x*1e5), num >= 0
	var app int
	if ii%10000 == 0 {
		app = int(ii / 10000)
	} else {
		app = int(ii/10000 + 1)
	}
	if ceil != app {
		RoundupDisagreements.Add(1)
	}
	if ver == 0 {
		return ceil
	}
	return app
}

func V3Temporal10(ver int, b [8]int, t [3]int) int {
	return V3TemporalOf10(V3Base10(ver, b), t, ver)
}

// ---------------------------------------------------------------------------------
// Environmental

// EffIdx holds *effective* (already resolved) environmental inputs: requirement
// indices into CR/IR/AR codes (X,H,M,L) and effective base-metric indices.
type EffIdx struct {
	Ver                        int
	CR, IR, AR                 int
	AV, AC, PR, UI, S, C, I, A int
}

var (
	envOnce sync.Once
	// envTab[ver][cr][ir][ar][c][i][a][s][av][ac][pr][ui]
	envTab [2][4][4][4][3][3][3][2][4][2][3][2]int8
	// EnvClass bits recorded while building, same indexing (cap binds, impact<=0)
	envCapBinds [4][4][4][3][3][3]bool
)

func buildEnv() {
	var expl [2][4][2][3][2]*big.Rat    // [s][av][ac][pr][ui]
	var explInt [2][4][2][3][2]*big.Int // expl * explDen
	explDen := new(big.Int).Exp(big.NewInt(10), big.NewInt(12), nil)
	for s := 0; s < 2; s++ {
		for av := 0; av < 4; av++ {
			for ac := 0; ac < 2; ac++ {
				for pr := 0; pr < 3; pr++ {
					for ui := 0; ui < 2; ui++ {
						expl[s][av][ac][pr][ui] = mul(R("8.22"), R(v3B[0].Weights[av]), R(v3B[1].Weights[ac]), v3B[2].Weight(v3B[2].Codes[pr], s == 1), R(v3B[3].Weights[ui]))
						scaled := mul(expl[s][av][ac][pr][ui], new(big.Rat).SetInt(explDen))
						if !scaled.IsInt() {
							panic("exploitability does not fit the fixed denominator")
						}
						explInt[s][av][ac][pr][ui] = new(big.Int).Set(scaled.Num())
					}
				}
			}
		}
	}
	capv := R("0.915")
	for cr := 0; cr < 4; cr++ {
		for ir := 0; ir < 4; ir++ {
			for ar := 0; ar < 4; ar++ {
				for c := 0; c < 3; c++ {
					for i := 0; i < 3; i++ {
						for a := 0; a < 3; a++ {
							raw := sub(one, mul(
								sub(one, mul(R(v3E[0].Weights[cr]), R(v3B[5].Weights[c]))),
								sub(one, mul(R(v3E[1].Weights[ir]), R(v3B[6].Weights[i]))),
								sub(one, mul(R(v3E[2].Weights[ar]), R(v3B[7].Weights[a])))))
							envCapBinds[cr][ir][ar][c][i][a] = raw.Cmp(capv) > 0
							miss := minR(raw, capv)
							for ver := 0; ver < 2; ver++ {
								for s := 0; s < 2; s++ {
									imp := impactFromISS(miss, s == 1, ver, true)
									// x = f*(imp + expl) with imp = p/q, expl = E/explDen, f = 108/100 or 1:
									// x = fn*(p*explDen + E*q) / (fd*q*explDen), evaluated on integers.
									p, q := imp.Num(), imp.Denom()
									fn, fd := int64(1), int64(1)
									if s == 1 {
										fn, fd = 108, 100
									}
									den := new(big.Int).Mul(q, explDen)
									den.Mul(den, big.NewInt(fd))
									den10 := new(big.Int).Mul(den, big.NewInt(10))
									pD := new(big.Int).Mul(p, explDen)
									for av := 0; av < 4; av++ {
										for ac := 0; ac < 2; ac++ {
											for pr := 0; pr < 3; pr++ {
												for ui := 0; ui < 2; ui++ {
													k := 0
													if imp.Sign() > 0 {
														num := new(big.Int).Mul(explInt[s][av][ac][pr][ui], q)
														num.Add(num, pD)
														num.Mul(num, big.NewInt(fn))
														if num.Cmp(den10) >= 0 { // min(x, 10)
															k = fracTenths(big.NewInt(10), big.NewInt(1), ver)
														} else {
															k = fracTenths(num, den, ver)
														}
													}
													envTab[ver][cr][ir][ar][c][i][a][s][av][ac][pr][ui] = int8(k)
												}
											}
										}
									}
								}
							}
						}
					}
				}
			}
		}
	}
}

// V3EnvInner10 is the inner Roundup (before the temporal factors) for effective inputs.
func V3EnvInner10(e EffIdx) int {
	envOnce.Do(buildEnv)
	return int(envTab[e.Ver][e.CR][e.IR][e.AR][e.C][e.I][e.A][e.S][e.AV][e.AC][e.PR][e.UI])
}

// V3EnvCapBinds reports whether the uncapped modified ISS exceeds 0.915.
func V3EnvCapBinds(e EffIdx) bool {
	envOnce.Do(buildEnv)
	return envCapBinds[e.CR][e.IR][e.AR][e.C][e.I][e.A]
}

// Resolve applies the specification's fall-back: a Modified metric that is X takes the
// value of its base metric (index 0 of every Modified metric is X and the remaining
// codes are the base metric's codes in the same order).
func Resolve(v V3Idx) EffIdx {
	pick := func(mod, base int) int {
		if mod == 0 {
			return base
		}
		return mod - 1
	}
	return EffIdx{
		Ver: v.Ver,
		CR:  v.E[0], IR: v.E[1], AR: v.E[2],
		AV: pick(v.E[3], v.B[0]),
		AC: pick(v.E[4], v.B[1]),
		PR: pick(v.E[5], v.B[2]),
		UI: pick(v.E[6], v.B[3]),
		S:  pick(v.E[7], v.B[4]),
		C:  pick(v.E[8], v.B[5]),
		I:  pick(v.E[9], v.B[6]),
		A:  pick(v.E[10], v.B[7]),
	}
}

// V3Env10 is the exact environmental score in tenths.
func V3Env10(v V3Idx) int {
	return V3TemporalOf10(V3EnvInner10(Resolve(v)), v.T, v.Ver)
}

// V3SeverityOf10 is the qualitative rating band of a score in tenths.
func V3SeverityOf10(k int) string {
	switch {
	case k == 0:
		return "None"
	case k >= 1 && k <= 39:
		return "Low"
	case k >= 40 && k <= 69:
		return "Medium"
	case k >= 70 && k <= 89:
		return "High"
	case k >= 90 && k <= 100:
		return "Critical"
	}
	return "out-of-range"
}
