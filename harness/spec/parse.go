package spec

import (
	"regexp"
	"strings"
)

// Tok is one Name:Value token of a vector.
type Tok struct{ Name, Value string }

func (t Tok) String() string { return t.Name + ":" + t.Value }

// Vec is the reference representation of a vector: version label ("" for v2) and the
// tokens in written order.
type Vec struct {
	Ver  string
	Toks []Tok
}

func (v Vec) Get(name string) (string, bool) {
	for _, t := range v.Toks {
		if t.Name == name {
			return t.Value, true
		}
	}
	return "", false
}

// String renders the vector exactly as written (prefix for v3).
func (v Vec) String() string {
	var parts []string
	if v.Ver != "" {
		parts = append(parts, "CVSS:"+v.Ver)
	}
	for _, t := range v.Toks {
		parts = append(parts, t.String())
	}
	return strings.Join(parts, "/")
}

// splitTok splits a segment into name and value when it has exactly one colon.
func splitTok(seg string) (Tok, bool) {
	i := strings.IndexByte(seg, ':')
	if i < 0 || strings.IndexByte(seg[i+1:], ':') >= 0 {
		return Tok{}, false
	}
	return Tok{seg[:i], seg[i+1:]}, true
}

func segments(s string) []string {
	// every string has at least one (possibly empty) segment
	var segs []string
	start := 0
	for i := 0; i < len(s); i++ {
		if s[i] == '/' {
			segs = append(segs, s[start:i])
			start = i + 1
		}
	}
	return append(segs, s[start:])
}

// ---------------------------------------------------------------------------------
// CVSS v3 recogniser (statement of C07)

// AcceptV3 decides whether a v3 decoder of the given level must accept s; on acceptance
// it returns the parsed reference vector.
func AcceptV3(s string, level Level) (Vec, bool) {
	segs := segments(s)
	var v Vec
	switch segs[0] {
	case "CVSS:3.0":
		v.Ver = "3.0"
	case "CVSS:3.1":
		v.Ver = "3.1"
	default:
		return Vec{}, false
	}
	seen := map[string]bool{}
	for _, seg := range segs[1:] {
		t, ok := splitTok(seg)
		if !ok {
			return Vec{}, false
		}
		m := ByName(V3Metrics, t.Name)
		if m == nil || m.Level > level || seen[t.Name] || !m.Has(t.Value) {
			return Vec{}, false
		}
		seen[t.Name] = true
		v.Toks = append(v.Toks, t)
	}
	for _, m := range v3B {
		if !seen[m.Name] {
			return Vec{}, false
		}
	}
	return v, true
}

// CanonV3 is the canonical encoding of an accepted vector as produced by an object of
// the given level: prefix, base metrics in specification order, then every temporal
// (and environmental) metric of the level spelled out, X when not written.
func CanonV3(v Vec, level Level) string {
	parts := []string{"CVSS:" + v.Ver}
	for _, m := range UpTo(V3Metrics, level) {
		val, ok := v.Get(m.Name)
		if !ok {
			val = "X"
		}
		parts = append(parts, m.Name+":"+val)
	}
	return strings.Join(parts, "/")
}

// ProjectV3 keeps the prefix and the tokens of levels <= level, in written order.
func ProjectV3(v Vec, level Level) Vec {
	r := Vec{Ver: v.Ver}
	for _, t := range v.Toks {
		if m := ByName(V3Metrics, t.Name); m != nil && m.Level <= level {
			r.Toks = append(r.Toks, t)
		}
	}
	return r
}

// IdxV3 converts an accepted vector into table indices (absent optional metrics = X = 0).
func IdxV3(v Vec) V3Idx {
	var r V3Idx
	if v.Ver == "3.1" {
		r.Ver = 1
	}
	at := func(m *Metric) int {
		val, ok := v.Get(m.Name)
		if !ok {
			return 0 // X is index 0 of every optional metric
		}
		return m.Index(val)
	}
	for i, m := range v3B {
		r.B[i] = at(m)
	}
	for i, m := range v3T {
		r.T[i] = at(m)
	}
	for i, m := range v3E {
		r.E[i] = at(m)
	}
	return r
}

// ---------------------------------------------------------------------------------
// CVSS v2 recogniser (statement of C08): three anchored regular expressions.

func alt(m *Metric) string {
	var c []string
	for _, x := range m.Codes {
		c = append(c, regexp.QuoteMeta(x))
	}
	return m.Name + ":(?:" + strings.Join(c, "|") + ")"
}

func group(ms []*Metric) string {
	var p []string
	for _, m := range ms {
		p = append(p, alt(m))
	}
	return strings.Join(p, "/")
}

var (
	v2BaseRE = regexp.MustCompile(`\A` + group(v2B) + `\z`)
	v2TempRE = regexp.MustCompile(`\A` + group(v2B) + `(?:/` + group(v2T) + `)?\z`)
	v2EnvRE  = regexp.MustCompile(`\A` + group(v2B) + `(?:/` + group(v2T) + `)?(?:/` + group(v2E) + `)?\z`)
)

// AcceptV2 decides whether a v2 decoder of the given level must accept s.
func AcceptV2(s string, level Level) (Vec, bool) {
	var re *regexp.Regexp
	switch level {
	case Base:
		re = v2BaseRE
	case Temporal:
		re = v2TempRE
	default:
		re = v2EnvRE
	}
	if !re.MatchString(s) {
		return Vec{}, false
	}
	var v Vec
	for _, seg := range segments(s) {
		t, _ := splitTok(seg)
		v.Toks = append(v.Toks, t)
	}
	return v, true
}

// V2Shape tells which optional groups an accepted v2 vector carries.
func V2Shape(v Vec) (hasT, hasE bool) {
	_, hasT = v.Get("E")
	_, hasE = v.Get("CDP")
	return
}

// ProjectV2 cuts an accepted v2 vector at the group boundary.
func ProjectV2(v Vec, level Level) Vec {
	var r Vec
	for _, t := range v.Toks {
		if m := ByName(V2Metrics, t.Name); m != nil && m.Level <= level {
			r.Toks = append(r.Toks, t)
		}
	}
	return r
}

// IdxV2 converts an accepted vector into table indices.
func IdxV2(v Vec) (b [6]int, hasT bool, t [3]int, hasE bool, e [5]int) {
	hasT, hasE = V2Shape(v)
	for i, m := range v2B {
		val, _ := v.Get(m.Name)
		b[i] = m.Index(val)
	}
	if hasT {
		for i, m := range v2T {
			val, _ := v.Get(m.Name)
			t[i] = m.Index(val)
		}
	}
	if hasE {
		for i, m := range v2E {
			val, _ := v.Get(m.Name)
			e[i] = m.Index(val)
		}
	}
	return
}

// ---------------------------------------------------------------------------------
// Defect classifier (C11): the set of defect kinds an input exhibits at a decoder.

type Defect int

const (
	DInvalidVector Defect = iota
	DUnsupportedVersion
	DUnsupportedMetric
	DSameMetric
	DInvalidValue
	DNoBase
	DNoTemporal
	DNoEnvironmental
	DMisordered
	nDefects
)

var defectNames = [...]string{"invalid-vector", "unsupported-version", "unsupported-metric", "same-metric", "invalid-value", "no-base-metrics", "no-temporal-metrics", "no-environmental-metrics", "misordered"}

func (d Defect) String() string { return defectNames[d] }

type DefectSet uint16

func (s DefectSet) With(d Defect) DefectSet { return s | 1<<uint(d) }
func (s DefectSet) Has(d Defect) bool       { return s&(1<<uint(d)) != 0 }
func (s DefectSet) Empty() bool             { return s == 0 }
func (s DefectSet) Len() int {
	n := 0
	for d := Defect(0); d < nDefects; d++ {
		if s.Has(d) {
			n++
		}
	}
	return n
}
func (s DefectSet) String() string {
	var p []string
	for d := Defect(0); d < nDefects; d++ {
		if s.Has(d) {
			p = append(p, d.String())
		}
	}
	return "{" + strings.Join(p, ",") + "}"
}

// classifyTokens applies the token rules shared by both versions. It returns the set of
// token-level defects, the names of metrics that have a well-formed valid token and the
// sequence of supported names in written order.
func classifyTokens(segs []string, tab []*Metric, level Level) (DefectSet, map[string]bool, []string) {
	var ds DefectSet
	seen := map[string]bool{}
	valid := map[string]bool{}
	var order []string
	for _, seg := range segs {
		t, ok := splitTok(seg)
		if !ok || t.Name == "" || t.Value == "" {
			ds = ds.With(DInvalidVector)
			continue
		}
		m := ByName(tab, t.Name)
		if m == nil || m.Level > level {
			ds = ds.With(DUnsupportedMetric)
			continue
		}
		order = append(order, t.Name)
		if seen[t.Name] {
			ds = ds.With(DSameMetric)
		}
		seen[t.Name] = true
		if !m.Has(t.Value) {
			ds = ds.With(DInvalidValue)
			continue
		}
		valid[t.Name] = true
	}
	return ds, valid, order
}

// DefectsV3 returns the defects of s for a v3 decoder of the given level (empty set iff
// AcceptV3 accepts).
func DefectsV3(s string, level Level) DefectSet {
	segs := segments(s)
	var ds DefectSet
	pt, ok := splitTok(segs[0])
	switch {
	case !ok || pt.Name != "CVSS":
		ds = ds.With(DInvalidVector)
	case pt.Value != "3.0" && pt.Value != "3.1":
		ds = ds.With(DUnsupportedVersion)
		if pt.Value == "" { // an empty version label is as much a malformed prefix
			ds = ds.With(DInvalidVector)
		}
	}
	tds, valid, _ := classifyTokens(segs[1:], V3Metrics, level)
	ds |= tds
	for _, m := range v3B {
		if !valid[m.Name] {
			ds = ds.With(DNoBase)
			break
		}
	}
	return ds
}

// DefectsV2 returns the defects of s for a v2 decoder of the given level.
func DefectsV2(s string, level Level) DefectSet {
	segs := segments(s)
	ds, valid, order := classifyTokens(segs, V2Metrics, level)
	for _, m := range v2B {
		if !valid[m.Name] {
			ds = ds.With(DNoBase)
			break
		}
	}
	partial := func(ms []*Metric) bool {
		n := 0
		for _, m := range ms {
			if valid[m.Name] {
				n++
			}
		}
		return n != 0 && n != len(ms)
	}
	if level >= Temporal && partial(v2T) {
		ds = ds.With(DNoTemporal)
	}
	if level >= Environmental && partial(v2E) {
		ds = ds.With(DNoEnvironmental)
	}
	pos := map[string]int{}
	for i, m := range V2Metrics {
		pos[m.Name] = i
	}
	for i := 1; i < len(order); i++ {
		if pos[order[i]] <= pos[order[i-1]] {
			ds = ds.With(DMisordered)
			break
		}
	}
	return ds
}
