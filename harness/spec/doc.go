// Package spec is the reference model: it imports nothing from the library under test.
package spec
