package spec

import (
	"fmt"
	"math/big"
	"sync"
)

// Level of a metric group.
type Level int

const (
	Base Level = iota
	Temporal
	Environmental
)

func (l Level) String() string { return [...]string{"base", "temporal", "environmental"}[l] }

// Metric describes one metric of a CVSS version: its vector name, its level, the
// specification's value codes in a fixed order and their weights as decimal literals
// taken from the FIRST documents (weights are empty strings for Scope / Modified Scope,
// and for the "takes the base value" X of the Modified metrics).
type Metric struct {
	Name    string
	Level   Level
	Codes   []string
	Weights []string // parallel to Codes; "" when the code carries no own weight
	// WeightsChanged is non-nil only for PR / MPR: weights under changed scope.
	WeightsChanged []string
	// BaseOf names the base metric a Modified metric falls back to ("" otherwise).
	BaseOf string
}

func (m *Metric) Index(code string) int {
	for i, c := range m.Codes {
		if c == code {
			return i
		}
	}
	return -1
}

func (m *Metric) Has(code string) bool { return m.Index(code) >= 0 }

// R parses a decimal literal exactly.
func R(s string) *big.Rat {
	if r, ok := ratCache.Load(s); ok {
		return r.(*big.Rat) // never mutated: all arithmetic helpers allocate their result
	}
	r, ok := new(big.Rat).SetString(s)
	if !ok {
		panic("bad decimal literal " + s)
	}
	ratCache.Store(s, r)
	return r
}

var ratCache sync.Map

// Weight returns the exact weight of a code (changed selects the changed-scope table
// for PR/MPR). It panics for codes without a weight.
func (m *Metric) Weight(code string, changed bool) *big.Rat {
	i := m.Index(code)
	if i < 0 {
		panic(fmt.Sprintf("metric %s has no code %q", m.Name, code))
	}
	w := m.Weights[i]
	if changed && m.WeightsChanged != nil {
		w = m.WeightsChanged[i]
	}
	if w == "" {
		panic(fmt.Sprintf("metric %s code %s has no own weight", m.Name, code))
	}
	return R(w)
}

// ---------------------------------------------------------------------------------
// CVSS v3.0 / v3.1 (weights: specification section 7.4 "Metric Values")

var V3Metrics = []*Metric{
	{Name: "AV", Level: Base, Codes: []string{"N", "A", "L", "P"}, Weights: []string{"0.85", "0.62", "0.55", "0.2"}},
	{Name: "AC", Level: Base, Codes: []string{"L", "H"}, Weights: []string{"0.77", "0.44"}},
	{Name: "PR", Level: Base, Codes: []string{"N", "L", "H"}, Weights: []string{"0.85", "0.62", "0.27"}, WeightsChanged: []string{"0.85", "0.68", "0.5"}},
	{Name: "UI", Level: Base, Codes: []string{"N", "R"}, Weights: []string{"0.85", "0.62"}},
	{Name: "S", Level: Base, Codes: []string{"U", "C"}, Weights: []string{"", ""}},
	{Name: "C", Level: Base, Codes: []string{"H", "L", "N"}, Weights: []string{"0.56", "0.22", "0"}},
	{Name: "I", Level: Base, Codes: []string{"H", "L", "N"}, Weights: []string{"0.56", "0.22", "0"}},
	{Name: "A", Level: Base, Codes: []string{"H", "L", "N"}, Weights: []string{"0.56", "0.22", "0"}},

	{Name: "E", Level: Temporal, Codes: []string{"X", "H", "F", "P", "U"}, Weights: []string{"1", "1", "0.97", "0.94", "0.91"}},
	{Name: "RL", Level: Temporal, Codes: []string{"X", "U", "W", "T", "O"}, Weights: []string{"1", "1", "0.97", "0.96", "0.95"}},
	{Name: "RC", Level: Temporal, Codes: []string{"X", "C", "R", "U"}, Weights: []string{"1", "1", "0.96", "0.92"}},

	{Name: "CR", Level: Environmental, Codes: []string{"X", "H", "M", "L"}, Weights: []string{"1", "1.5", "1", "0.5"}},
	{Name: "IR", Level: Environmental, Codes: []string{"X", "H", "M", "L"}, Weights: []string{"1", "1.5", "1", "0.5"}},
	{Name: "AR", Level: Environmental, Codes: []string{"X", "H", "M", "L"}, Weights: []string{"1", "1.5", "1", "0.5"}},
	{Name: "MAV", Level: Environmental, BaseOf: "AV", Codes: []string{"X", "N", "A", "L", "P"}, Weights: []string{"", "0.85", "0.62", "0.55", "0.2"}},
	{Name: "MAC", Level: Environmental, BaseOf: "AC", Codes: []string{"X", "L", "H"}, Weights: []string{"", "0.77", "0.44"}},
	{Name: "MPR", Level: Environmental, BaseOf: "PR", Codes: []string{"X", "N", "L", "H"}, Weights: []string{"", "0.85", "0.62", "0.27"}, WeightsChanged: []string{"", "0.85", "0.68", "0.5"}},
	{Name: "MUI", Level: Environmental, BaseOf: "UI", Codes: []string{"X", "N", "R"}, Weights: []string{"", "0.85", "0.62"}},
	{Name: "MS", Level: Environmental, BaseOf: "S", Codes: []string{"X", "U", "C"}, Weights: []string{"", "", ""}},
	{Name: "MC", Level: Environmental, BaseOf: "C", Codes: []string{"X", "H", "L", "N"}, Weights: []string{"", "0.56", "0.22", "0"}},
	{Name: "MI", Level: Environmental, BaseOf: "I", Codes: []string{"X", "H", "L", "N"}, Weights: []string{"", "0.56", "0.22", "0"}},
	{Name: "MA", Level: Environmental, BaseOf: "A", Codes: []string{"X", "H", "L", "N"}, Weights: []string{"", "0.56", "0.22", "0"}},
}

// V3Versions are the accepted version labels.
var V3Versions = []string{"3.0", "3.1"}

// ---------------------------------------------------------------------------------
// CVSS v2 (weights: "A Complete Guide to the CVSS Version 2.0", section 3.2)

var V2Metrics = []*Metric{
	{Name: "AV", Level: Base, Codes: []string{"L", "A", "N"}, Weights: []string{"0.395", "0.646", "1.0"}},
	{Name: "AC", Level: Base, Codes: []string{"H", "M", "L"}, Weights: []string{"0.35", "0.61", "0.71"}},
	{Name: "Au", Level: Base, Codes: []string{"M", "S", "N"}, Weights: []string{"0.45", "0.56", "0.704"}},
	{Name: "C", Level: Base, Codes: []string{"N", "P", "C"}, Weights: []string{"0", "0.275", "0.660"}},
	{Name: "I", Level: Base, Codes: []string{"N", "P", "C"}, Weights: []string{"0", "0.275", "0.660"}},
	{Name: "A", Level: Base, Codes: []string{"N", "P", "C"}, Weights: []string{"0", "0.275", "0.660"}},

	{Name: "E", Level: Temporal, Codes: []string{"U", "POC", "F", "H", "ND"}, Weights: []string{"0.85", "0.9", "0.95", "1.00", "1.00"}},
	{Name: "RL", Level: Temporal, Codes: []string{"OF", "TF", "W", "U", "ND"}, Weights: []string{"0.87", "0.90", "0.95", "1.00", "1.00"}},
	{Name: "RC", Level: Temporal, Codes: []string{"UC", "UR", "C", "ND"}, Weights: []string{"0.90", "0.95", "1.00", "1.00"}},

	{Name: "CDP", Level: Environmental, Codes: []string{"N", "L", "LM", "MH", "H", "ND"}, Weights: []string{"0", "0.1", "0.3", "0.4", "0.5", "0"}},
	{Name: "TD", Level: Environmental, Codes: []string{"N", "L", "M", "H", "ND"}, Weights: []string{"0", "0.25", "0.75", "1.00", "1.00"}},
	{Name: "CR", Level: Environmental, Codes: []string{"L", "M", "H", "ND"}, Weights: []string{"0.5", "1.0", "1.51", "1.0"}},
	{Name: "IR", Level: Environmental, Codes: []string{"L", "M", "H", "ND"}, Weights: []string{"0.5", "1.0", "1.51", "1.0"}},
	{Name: "AR", Level: Environmental, Codes: []string{"L", "M", "H", "ND"}, Weights: []string{"0.5", "1.0", "1.51", "1.0"}},
}

// ByName finds a metric in a table.
func ByName(tab []*Metric, name string) *Metric {
	for _, m := range tab {
		if m.Name == name {
			return m
		}
	}
	return nil
}

// OfLevel returns the metrics of exactly one level, in specification order.
func OfLevel(tab []*Metric, l Level) []*Metric {
	var r []*Metric
	for _, m := range tab {
		if m.Level == l {
			r = append(r, m)
		}
	}
	return r
}

// UpTo returns the metrics of all levels up to and including l.
func UpTo(tab []*Metric, l Level) []*Metric {
	var r []*Metric
	for _, m := range tab {
		if m.Level <= l {
			r = append(r, m)
		}
	}
	return r
}
