package spec

import (
	"strings"
	"testing"
)

// Oracle self-validation: the reference model reproduces the worked examples of the FIRST
// documents (CVSS v3 examples document, v2 guide section 3.3) and the score literals
// pinned by the repository's own tests.

func parse3(t *testing.T, s string) V3Idx {
	v, ok := AcceptV3(s, Environmental)
	if !ok {
		t.Fatalf("reference recogniser rejects %q", s)
	}
	return IdxV3(v)
}

func TestV3Examples(t *testing.T) {
	base := []struct {
		vec  string
		want int
	}{
		{"AV:P/AC:H/PR:H/UI:R/S:U/C:N/I:N/A:N", 0},
		{"AV:N/AC:L/PR:N/UI:N/S:U/C:H/I:N/A:N", 75},
		{"AV:N/AC:L/PR:N/UI:R/S:C/C:L/I:L/A:N", 61},
		{"AV:N/AC:L/PR:L/UI:N/S:C/C:L/I:L/A:N", 64},
		{"AV:N/AC:H/PR:N/UI:R/S:U/C:L/I:N/A:N", 31},
		{"AV:N/AC:L/PR:L/UI:N/S:C/C:H/I:H/A:H", 99},
		{"AV:N/AC:L/PR:L/UI:N/S:U/C:H/I:H/A:H", 88},
		{"AV:L/AC:L/PR:N/UI:R/S:U/C:H/I:H/A:H", 78},
		{"AV:N/AC:L/PR:N/UI:N/S:U/C:H/I:H/A:H", 98},
		{"AV:N/AC:H/PR:N/UI:N/S:C/C:N/I:H/A:N", 68},
		{"AV:P/AC:L/PR:N/UI:N/S:U/C:H/I:H/A:H", 68},
		{"AV:N/AC:L/PR:N/UI:N/S:C/C:L/I:N/A:N", 58},
		{"AV:N/AC:L/PR:L/UI:R/S:C/C:L/I:L/A:N", 54},
		{"AV:A/AC:L/PR:N/UI:N/S:U/C:H/I:H/A:H", 88},
		{"AV:P/AC:L/PR:N/UI:N/S:U/C:N/I:H/A:N", 46},
		{"AV:N/AC:L/PR:N/UI:R/S:U/C:H/I:H/A:H", 88},
		{"AV:N/AC:H/PR:N/UI:N/S:U/C:H/I:H/A:N", 74},
		{"AV:N/AC:L/PR:N/UI:R/S:C/C:H/I:H/A:H", 96},
		{"AV:A/AC:H/PR:L/UI:N/S:C/C:H/I:L/A:N", 65},
		{"AV:N/AC:L/PR:N/UI:N/S:C/C:H/I:H/A:H", 100},
		{"AV:N/AC:L/PR:H/UI:N/S:U/C:L/I:L/A:N", 38},
	}
	for _, ver := range []string{"3.0", "3.1"} {
		for _, tc := range base {
			x := parse3(t, "CVSS:"+ver+"/"+tc.vec)
			if got := V3Base10(x.Ver, x.B); got != tc.want {
				t.Errorf("%s %s: base %d want %d", ver, tc.vec, got, tc.want)
			}
		}
	}
	full := []struct {
		vec           string
		temporal, env int
	}{
		{"CVSS:3.1/AV:A/AC:H/PR:L/UI:N/S:C/C:L/I:H/A:L/E:P/RL:O/RC:U/CR:L/IR:M/AR:L/MAV:P/MAC:L/MPR:L/MUI:R/MS:C/MC:H/MI:H/MA:H", -1, 55},
		{"CVSS:3.1/S:U/AV:N/AC:L/PR:H/UI:N/C:L/I:L/A:N/E:F", 37, 37},
		{"CVSS:3.0/AV:P/AC:L/PR:N/UI:N/S:U/C:H/I:H/A:N/E:F/RL:W/RC:R", 56, 56},
		{"CVSS:3.0/S:U/AV:N/AC:L/PR:H/UI:N/C:L/I:L/A:N", 38, 38},
	}
	for _, tc := range full {
		x := parse3(t, tc.vec)
		if tc.temporal >= 0 {
			if got := V3Temporal10(x.Ver, x.B, x.T); got != tc.temporal {
				t.Errorf("%s: temporal %d want %d", tc.vec, got, tc.temporal)
			}
		}
		if got := V3Env10(x); got != tc.env {
			t.Errorf("%s: env %d want %d", tc.vec, got, tc.env)
		}
	}
	if n := RoundupDisagreements.Load(); n != 0 {
		t.Errorf("roundup readings disagree on %d inputs", n)
	}
}

func TestV2Examples(t *testing.T) {
	cases := []struct {
		vec             string
		base, temp, env int
	}{
		{"AV:N/AC:L/Au:N/C:N/I:N/A:C/E:F/RL:OF/RC:C/CDP:H/TD:H/CR:M/IR:M/AR:H", 78, 64, 92},
		{"AV:N/AC:L/Au:N/C:C/I:C/A:C/E:F/RL:OF/RC:C/CDP:H/TD:H/CR:M/IR:M/AR:L", 100, 83, 90},
		{"AV:L/AC:H/Au:N/C:C/I:C/A:C/E:POC/RL:OF/RC:C/CDP:H/TD:H/CR:M/IR:M/AR:M", 62, 49, 75},
		{"AV:L/AC:H/Au:N/C:C/I:C/A:C", 62, 62, 62},
		{"AV:L/AC:H/Au:N/C:C/I:C/A:C/E:POC/RL:OF/RC:C", 62, 49, 49},
		{"AV:L/AC:H/Au:N/C:C/I:C/A:C/CDP:H/TD:H/CR:M/IR:M/AR:M", 62, 62, 81},
		{"AV:A/AC:L/Au:N/C:C/I:C/A:C/CDP:H/TD:H/CR:L/IR:ND/AR:ND", 83, 83, 90},                   // issue-33: exact half 9.05, {9.0, 9.1}
		{"AV:A/AC:L/Au:N/C:C/I:C/A:C/E:ND/RL:ND/RC:ND/CDP:H/TD:ND/CR:L/IR:ND/AR:ND", 83, 83, 90}, // issue-33b
		{"AV:L/AC:M/Au:S/C:N/I:N/A:P/CDP:N/TD:ND/CR:M/IR:ND/AR:ND", 15, 15, 15},
		{"AV:A/AC:M/Au:S/C:C/I:C/A:C/CDP:N/TD:N/CR:M/IR:ND/AR:L", 74, 74, 0},
	}
	for _, tc := range cases {
		v, ok := AcceptV2(tc.vec, Environmental)
		if !ok {
			t.Fatalf("reference recogniser rejects %q", tc.vec)
		}
		b, hasT, tt, hasE, e := IdxV2(v)
		if s := V2Base(b); !s.Has(tc.base) {
			t.Errorf("%s: base %v lacks %d", tc.vec, s.Elems(), tc.base)
		}
		if s := V2Temporal(b, hasT, tt); !s.Has(tc.temp) {
			t.Errorf("%s: temporal %v lacks %d", tc.vec, s.Elems(), tc.temp)
		}
		if s, _ := V2Env(b, hasT, tt, hasE, e); !s.Has(tc.env) {
			t.Errorf("%s: env %v lacks %d", tc.vec, s.Elems(), tc.env)
		}
	}
	// the known deviation of the library is NOT admitted by the model
	v, _ := AcceptV2("AV:L/AC:M/Au:N/C:P/I:N/A:N", Base)
	b, _, _, _, _ := IdxV2(v)
	if s := V2Base(b); s.Len() != 1 || !s.Has(19) {
		t.Errorf("AV:L/AC:M/Au:N/C:P/I:N/A:N: %v, specification value is 1.9", s.Elems())
	}
}

func TestRound1(t *testing.T) {
	if s := Round1Set(R("9.05")); !(s.Has(90) && s.Has(91) && s.Len() == 2) {
		t.Errorf("9.05 -> %v", s.Elems())
	}
	if s := Round1Set(R("-0.169")); !(s.Has(-2) && s.Len() == 1) {
		t.Errorf("-0.169 -> %v", s.Elems())
	}
	if s := Round1Set(R("-0.25")); !(s.Has(-2) && s.Has(-3) && s.Len() == 2) {
		t.Errorf("-0.25 -> %v", s.Elems())
	}
	if s := round1Int(-500, 1000); !(s.Has(0) && s.Has(-1) && s.Len() == 2) {
		t.Errorf("-0.25 int -> %v", s.Elems())
	}
	if s := round1Int(5640320, 1000000); !(s.Has(6) && s.Len() == 1) {
		t.Errorf("%v", s.Elems())
	}
}

func TestRecognisersAndClassifier(t *testing.T) {
	type tc struct {
		s     string
		level Level
		ok    bool
		d     string
	}
	v3 := []tc{
		{"CVSS:3.1/AV:N/AC:L/PR:N/UI:N/S:U/C:H/I:H/A:H", Base, true, "{}"},
		{"CVSS:3.1/S:U/AV:N/AC:L/PR:N/UI:N/C:H/I:H/A:H/E:X", Temporal, true, "{}"},
		{"CVSS:3.1/AV:N/AC:L/PR:N/UI:N/S:U/C:H/I:H/A:H/E:X", Base, false, "{unsupported-metric}"},
		{"CVSS:3.2/AV:N/AC:L/PR:N/UI:N/S:U/C:H/I:H/A:H", Base, false, "{unsupported-version}"},
		{"CVSS:3.1/AV:N/AC:L/PR:N/UI:N/S:U/C:H/I:H/A:H/", Base, false, "{invalid-vector}"},
		{"CVSS:3.1/AV:N/AC:L/PR:N/UI:N/S:U/C:H/I:H", Base, false, "{no-base-metrics}"},
		{"CVSS:3.1/AV:N/AC:L/PR:N/UI:N/S:U/C:H/I:H/A:H/A:L", Base, false, "{same-metric}"},
		{"CVSS:3.1/AV:N/AC:L/PR:N/UI:N/S:X/C:H/I:H/A:H", Base, false, "{invalid-value,no-base-metrics}"},
		{"cvss:3.1/AV:N/AC:L/PR:N/UI:N/S:U/C:H/I:H/A:H", Base, false, "{invalid-vector}"},
		{"", Environmental, false, "{invalid-vector,no-base-metrics}"},
	}
	for _, c := range v3 {
		_, ok := AcceptV3(c.s, c.level)
		d := DefectsV3(c.s, c.level)
		if ok != c.ok || d.String() != c.d || d.Empty() != ok {
			t.Errorf("v3 %q level %v: accept=%v defects=%v", c.s, c.level, ok, d)
		}
	}
	v2 := []tc{
		{"AV:N/AC:L/Au:N/C:N/I:N/A:C", Base, true, "{}"},
		{"AV:N/AC:L/Au:N/C:N/I:N/A:C/E:U/RL:ND/RC:ND", Temporal, true, "{}"},
		{"AV:N/AC:L/Au:N/C:N/I:N/A:C/E:U/RL:ND/RC:ND", Base, false, "{unsupported-metric}"},
		{"AV:N/AC:L/Au:N/C:N/I:N/A:C/CDP:H/TD:H/CR:M/IR:M/AR:H", Environmental, true, "{}"},
		{"AV:N/AC:L/Au:N/C:N/I:N/A:C/E:U/RL:ND", Temporal, false, "{no-temporal-metrics}"},
		{"AV:N/AC:L/Au:N/C:N/I:N/A:C/E:U/RL:ND/CDP:H/TD:H/CR:M/IR:M/AR:H", Environmental, false, "{no-temporal-metrics}"},
		{"AV:N/AC:L/Au:N/C:N/A:C/I:N", Base, false, "{misordered}"},
		{"CVSS:2.0/AV:N/AC:L/Au:N/C:N/I:N/A:C", Base, false, "{unsupported-metric}"},
		{"AV:N/AC:L/Au:N/C:N/I:N/A:C/CDP:H/TD:H/CR:M/IR:M", Environmental, false, "{no-environmental-metrics}"},
	}
	for _, c := range v2 {
		_, ok := AcceptV2(c.s, c.level)
		d := DefectsV2(c.s, c.level)
		if ok != c.ok || d.String() != c.d || d.Empty() != ok {
			t.Errorf("v2 %q level %v: accept=%v defects=%v", c.s, c.level, ok, d)
		}
	}
	if got := CanonV3(Vec{Ver: "3.1", Toks: []Tok{{"S", "U"}, {"AV", "N"}, {"AC", "L"}, {"PR", "N"}, {"UI", "N"}, {"C", "H"}, {"I", "H"}, {"A", "H"}, {"RL", "O"}}}, Temporal); got != "CVSS:3.1/AV:N/AC:L/PR:N/UI:N/S:U/C:H/I:H/A:H/E:X/RL:O/RC:X" {
		t.Errorf("canon: %s", got)
	}
	if !strings.HasPrefix(v2EnvRE.String(), `\AAV:(?:L|A|N)/AC:`) {
		t.Errorf("regexp: %s", v2EnvRE.String())
	}
}
