// Package ev records what a check run actually covered: evaluations, distinct
// non-trivial cases (hash set, or a plain counter for enumerations whose points are
// distinct by construction), class distribution, samples, violations, known findings.
package ev

import (
	"encoding/binary"
	"encoding/json"
	"hash/fnv"
	"os"
	"sort"
	"sync"
)

type Violation struct {
	Replay string `json:"replay"`
	Msg    string `json:"msg"`
}

// Fragment is what one test process contributes; the driver merges fragments.
type Fragment struct {
	Property    string            `json:"property"`
	Tier        string            `json:"tier"`
	Seed        int64             `json:"seed"`
	Shard       int               `json:"shard"`
	Evaluations int64             `json:"evaluations"`
	EnumNT      int64             `json:"enum_nontrivial"` // distinct by construction
	Classes     map[string]int64  `json:"classes"`
	Samples     []any             `json:"samples"`
	Violations  []Violation       `json:"violations"`
	KnownHits   map[string]int64  `json:"known_hits"`
	KnownEx     map[string]string `json:"known_examples"`
	Extra       map[string]any    `json:"extra"`
	Stages      map[string]Stage  `json:"stages"`
	Rule        string            `json:"rule"`
	Exhaustive  []string          `json:"exhaustive"` // names of finite domains enumerated completely (all shards together)
	Assumptions []string          `json:"assumptions"`
	Done        bool              `json:"done"`
}

type Stage struct {
	Evaluations int64 `json:"evaluations"`
	Nontrivial  int64 `json:"nontrivial"`
	Requested   int64 `json:"requested,omitempty"`
}

type Recorder struct {
	mu      sync.Mutex
	F       Fragment
	hashes  map[uint64]struct{}
	nsample int
	maxSamp int
}

func New(property, tier string, seed int64, shard int) *Recorder {
	return &Recorder{
		F: Fragment{Property: property, Tier: tier, Seed: seed, Shard: shard,
			Classes: map[string]int64{}, KnownHits: map[string]int64{}, KnownEx: map[string]string{},
			Extra: map[string]any{}, Stages: map[string]Stage{}},
		hashes:  map[uint64]struct{}{},
		maxSamp: 12,
	}
}

func Hash(s string) uint64 {
	h := fnv.New64a()
	h.Write([]byte(s))
	return h.Sum64()
}

// Case records one evaluated case of a generated (not enumerated) stage. key identifies
// the case for distinctness; nontrivial says whether it satisfies the property's rule.
func (r *Recorder) Case(stage, key string, nontrivial bool, classes ...string) {
	r.mu.Lock()
	defer r.mu.Unlock()
	r.F.Evaluations++
	st := r.F.Stages[stage]
	st.Evaluations++
	if nontrivial {
		h := Hash(key)
		if _, ok := r.hashes[h]; !ok {
			r.hashes[h] = struct{}{}
			st.Nontrivial++
		}
	}
	r.F.Stages[stage] = st
	for _, c := range classes {
		r.F.Classes[c]++
	}
}

// Bulk adds counters of an enumeration stage whose points are distinct by construction.
func (r *Recorder) Bulk(stage string, evaluations, nontrivial int64, classes map[string]int64) {
	r.mu.Lock()
	defer r.mu.Unlock()
	r.F.Evaluations += evaluations
	r.F.EnumNT += nontrivial
	st := r.F.Stages[stage]
	st.Evaluations += evaluations
	st.Nontrivial += nontrivial
	r.F.Stages[stage] = st
	for k, v := range classes {
		r.F.Classes[k] += v
	}
}

func (r *Recorder) Requested(stage string, n int64) {
	r.mu.Lock()
	defer r.mu.Unlock()
	st := r.F.Stages[stage]
	st.Requested = n
	r.F.Stages[stage] = st
}

// Sample keeps up to a few samples per stage.
func (r *Recorder) Sample(v any) {
	r.mu.Lock()
	defer r.mu.Unlock()
	if len(r.F.Samples) < r.maxSamp {
		r.F.Samples = append(r.F.Samples, v)
	}
}

func (r *Recorder) SampleCount() int {
	r.mu.Lock()
	defer r.mu.Unlock()
	return len(r.F.Samples)
}

func (r *Recorder) Violation(replay, msg string) {
	r.mu.Lock()
	defer r.mu.Unlock()
	r.F.Violations = append(r.F.Violations, Violation{replay, msg})
}

func (r *Recorder) NumViolations() int {
	r.mu.Lock()
	defer r.mu.Unlock()
	return len(r.F.Violations)
}

func (r *Recorder) Known(id, example string) {
	r.mu.Lock()
	defer r.mu.Unlock()
	r.F.KnownHits[id]++
	if _, ok := r.F.KnownEx[id]; !ok {
		r.F.KnownEx[id] = example
	}
}

func (r *Recorder) KnownBulk(id string, n int64, example string) {
	if n == 0 {
		return
	}
	r.mu.Lock()
	defer r.mu.Unlock()
	r.F.KnownHits[id] += n
	if _, ok := r.F.KnownEx[id]; !ok {
		r.F.KnownEx[id] = example
	}
}

func (r *Recorder) SetExtra(k string, v any) {
	r.mu.Lock()
	defer r.mu.Unlock()
	r.F.Extra[k] = v
}

func (r *Recorder) AddExtraInt(k string, n int64) {
	r.mu.Lock()
	defer r.mu.Unlock()
	cur, _ := r.F.Extra[k].(int64)
	r.F.Extra[k] = cur + n
}

// Write stores the fragment (path) and its hash set (path + ".hashes").
func (r *Recorder) Write(path string, done bool) error {
	r.mu.Lock()
	defer r.mu.Unlock()
	r.F.Done = done
	b, err := json.Marshal(&r.F)
	if err != nil {
		return err
	}
	if err := os.WriteFile(path, b, 0o644); err != nil {
		return err
	}
	hs := make([]uint64, 0, len(r.hashes))
	for h := range r.hashes {
		hs = append(hs, h)
	}
	sort.Slice(hs, func(i, j int) bool { return hs[i] < hs[j] })
	buf := make([]byte, 8*len(hs))
	for i, h := range hs {
		binary.LittleEndian.PutUint64(buf[8*i:], h)
	}
	return os.WriteFile(path+".hashes", buf, 0o644)
}

// ReadHashes loads a hash file written by Write.
func ReadHashes(path string) ([]uint64, error) {
	b, err := os.ReadFile(path)
	if err != nil {
		return nil, err
	}
	hs := make([]uint64, len(b)/8)
	for i := range hs {
		hs[i] = binary.LittleEndian.Uint64(b[8*i:])
	}
	return hs, nil
}
