package gen

import "verif/harness/spec"

// SplitMix64 is the counter-based hash used for reproducible choices outside rapid.
func SplitMix64(x uint64) uint64 {
	x += 0x9e3779b97f4a7c15
	x = (x ^ (x >> 30)) * 0xbf58476d1ce4e5b9
	x = (x ^ (x >> 27)) * 0x94d049bb133111eb
	return x ^ (x >> 31)
}

// Rng is a tiny deterministic stream on top of SplitMix64.
type Rng struct{ s uint64 }

func NewRng(seed uint64) *Rng { return &Rng{SplitMix64(seed)} }
func (r *Rng) Next() uint64   { r.s = SplitMix64(r.s); return r.s }
func (r *Rng) Intn(n int) int { return int(r.Next() % uint64(n)) }

// V3FromIdx builds the canonical-order reference vector of an index tuple. Optional
// metrics of levels <= level are all written (X spelled out) when spell is true and
// written only when defined otherwise.
func V3FromIdx(x spec.V3Idx, level spec.Level, spell bool) spec.Vec {
	v := spec.Vec{Ver: spec.V3Versions[x.Ver]}
	for i, m := range spec.V3B() {
		v.Toks = append(v.Toks, spec.Tok{Name: m.Name, Value: m.Codes[x.B[i]]})
	}
	opt := func(ms []*spec.Metric, idx []int) {
		for i, m := range ms {
			if idx[i] == 0 && !spell {
				continue
			}
			v.Toks = append(v.Toks, spec.Tok{Name: m.Name, Value: m.Codes[idx[i]]})
		}
	}
	if level >= spec.Temporal {
		opt(spec.V3T(), x.T[:])
	}
	if level >= spec.Environmental {
		opt(spec.V3E(), x.E[:])
	}
	return v
}

// DecorateV3 returns a presentation variant of v for a decoder of the given level that
// does not change the metrics of levels below `keep`+1: tokens are shuffled and, for
// levels above keep, optional metrics of the decoder's level are added with hash-chosen
// values (explicit X included). h selects the variant.
func DecorateV3(v spec.Vec, level, keep spec.Level, h uint64) spec.Vec {
	r := NewRng(h)
	out := spec.Vec{Ver: v.Ver, Toks: append([]spec.Tok(nil), v.Toks...)}
	for _, m := range spec.UpTo(spec.V3Metrics, level) {
		if m.Level <= keep {
			continue
		}
		if _, ok := out.Get(m.Name); ok {
			continue
		}
		if r.Intn(2) == 0 {
			out.Toks = append(out.Toks, spec.Tok{Name: m.Name, Value: m.Codes[r.Intn(len(m.Codes))]})
		}
	}
	// Fisher-Yates
	for i := len(out.Toks) - 1; i > 0; i-- {
		j := r.Intn(i + 1)
		out.Toks[i], out.Toks[j] = out.Toks[j], out.Toks[i]
	}
	return out
}

// V2FromIdx builds the canonical v2 vector of an index tuple.
func V2FromIdx(b [6]int, hasT bool, t [3]int, hasE bool, e [5]int) spec.Vec {
	var v spec.Vec
	for i, m := range spec.V2B() {
		v.Toks = append(v.Toks, spec.Tok{Name: m.Name, Value: m.Codes[b[i]]})
	}
	if hasT {
		for i, m := range spec.V2T() {
			v.Toks = append(v.Toks, spec.Tok{Name: m.Name, Value: m.Codes[t[i]]})
		}
	}
	if hasE {
		for i, m := range spec.V2E() {
			v.Toks = append(v.Toks, spec.Tok{Name: m.Name, Value: m.Codes[e[i]]})
		}
	}
	return v
}
