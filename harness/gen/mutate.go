package gen

import (
	"strings"

	"pgregory.net/rapid"
	"verif/harness/spec"
)

// Alphabet of characters that occur in vectors, plus hostile ones.
var vecAlphabet = []rune("CVSS:3.01/AVNLPRUHIMEXFTWOQDacvsnlx245 \t\r\n\v\f-_.,;#()[]\"'\\\x00é\u00a0\u2003\ufeff")

var unknownNames = []string{"ZZ", "X", "CVSS", "AVV", "Q", "av", "Av", "au", "AU", "mav", "e", "rl", "cdp", " AV", "AV ", "M", "MX"}
var junkValues = []string{"Z", "0", "n", "l", "h", "x", "nd", "ND", "XX", " N", "N ", "NN", "-", "é", "\x80", "\xff", "\xc3", "\x7f", "\x00", "N\x00", "\u00a0", "Ｎ"}

func tabOf(ver int) []*spec.Metric {
	if ver == 2 {
		return spec.V2Metrics
	}
	return spec.V3Metrics
}

// Valid draws a valid vector of the version whose tokens belong to levels <= level.
func Valid(ver int, level spec.Level) *rapid.Generator[spec.Vec] {
	if ver == 2 {
		return ValidV2(level)
	}
	return ValidV3(level)
}

func segsOf(v spec.Vec) []string {
	var s []string
	if v.Ver != "" {
		s = append(s, "CVSS:"+v.Ver)
	}
	for _, t := range v.Toks {
		s = append(s, t.String())
	}
	return s
}

// Mutated draws a string within a few token- and character-level edits of a valid vector
// (of any level up to environmental) and returns it with the labels of the edits applied.
func Mutated(t *rapid.T, ver int) (string, []string) {
	s, labels, _ := MutatedFrom(t, ver)
	return s, labels
}

// MutatedFrom is Mutated that also returns the valid vector the edits started from.
func MutatedFrom(t *rapid.T, ver int) (string, []string, string) {
	lv := Level().Draw(t, "srclevel")
	srcVec := Valid(ver, lv).Draw(t, "src")
	source := srcVec.String()
	segs := segsOf(srcVec)
	tab := tabOf(ver)
	var labels []string
	n := rapid.IntRange(0, 3).Draw(t, "nedits")
	first := 0 // index of the first metric token
	if ver == 3 {
		first = 1
	}
	for e := 0; e < n; e++ {
		kind := rapid.IntRange(0, 15).Draw(t, "edit")
		pos := func() int {
			if len(segs) <= first {
				return -1
			}
			return rapid.IntRange(first, len(segs)-1).Draw(t, "pos")
		}
		insertAt := func(s string) {
			i := rapid.IntRange(first, len(segs)).Draw(t, "at")
			segs = append(segs[:i], append([]string{s}, segs[i:]...)...)
		}
		switch kind {
		case 0: // drop a token
			if i := pos(); i >= 0 {
				segs = append(segs[:i], segs[i+1:]...)
				labels = append(labels, "drop-token")
			}
		case 1: // duplicate a token verbatim
			if i := pos(); i >= 0 {
				insertAt(segs[i])
				labels = append(labels, "dup-token")
			}
		case 2: // duplicate a name with another legal value
			if i := pos(); i >= 0 {
				if tk, ok := splitSeg(segs[i]); ok {
					if m := spec.ByName(tab, tk.Name); m != nil {
						insertAt(m.Name + ":" + rapid.SampledFrom(m.Codes).Draw(t, "val"))
						labels = append(labels, "dup-name")
					}
				}
			}
		case 3: // swap two tokens
			if len(segs)-first >= 2 {
				i, j := pos(), pos()
				segs[i], segs[j] = segs[j], segs[i]
				if i != j {
					labels = append(labels, "swap-tokens")
				}
			}
		case 4: // value replaced by a code of another metric / junk
			if i := pos(); i >= 0 {
				if tk, ok := splitSeg(segs[i]); ok {
					var val string
					if rapid.Bool().Draw(t, "junk") {
						val = rapid.SampledFrom(junkValues).Draw(t, "jv")
					} else {
						m := rapid.SampledFrom(tab).Draw(t, "om")
						val = rapid.SampledFrom(m.Codes).Draw(t, "ov")
					}
					segs[i] = tk.Name + ":" + val
					labels = append(labels, "replace-value")
				}
			}
		case 5: // name replaced by another metric's name or an unknown name
			if i := pos(); i >= 0 {
				if tk, ok := splitSeg(segs[i]); ok {
					var name string
					if rapid.Bool().Draw(t, "unk") {
						name = rapid.SampledFrom(unknownNames).Draw(t, "un")
					} else {
						name = rapid.SampledFrom(tab).Draw(t, "om").Name
					}
					segs[i] = name + ":" + tk.Value
					labels = append(labels, "replace-name")
				}
			}
		case 6: // empty token: doubled, leading or trailing separator
			insertAt("")
			labels = append(labels, "empty-token")
		case 7: // extra colon / missing colon / empty part
			if i := pos(); i >= 0 {
				switch rapid.IntRange(0, 4).Draw(t, "colon") {
				case 0:
					segs[i] += ":"
				case 1:
					segs[i] = strings.Replace(segs[i], ":", "", 1)
				case 2:
					segs[i] = strings.Replace(segs[i], ":", "::", 1)
				case 3:
					if tk, ok := splitSeg(segs[i]); ok {
						segs[i] = tk.Name + ":"
					}
				case 4:
					if tk, ok := splitSeg(segs[i]); ok {
						segs[i] = ":" + tk.Value
					}
				}
				labels = append(labels, "colon-edit")
			}
		case 8: // prefix edits
			pf := rapid.SampledFrom([]string{"CVSS:3.2", "CVSS:2.0", "CVSS:4.0", "CVSS:3", "CVSS:", "cvss:3.1", "CVSS3.1", "CVSS:3.1", "CVSS:3.0", "CVSS:3.1:", " CVSS:3.1", "CVSS:3.10", "CVSS:1.0", "CVSS:3.1 ", "CVSS2#", "CVSS:2", "CVSS:03.1", "CVSS:3.01", "CVSS:3.1.0", "CVSS:+3.1", "Cvss:3.1", "CVSS:３.１", "\ufeffCVSS:3.1"}).Draw(t, "prefix")
			switch rapid.IntRange(0, 2).Draw(t, "pfop") {
			case 0: // replace (v3) or prepend (v2)
				if ver == 3 && len(segs) > 0 {
					segs[0] = pf
				} else {
					segs = append([]string{pf}, segs...)
				}
			case 1: // remove the prefix (v3) / prepend (v2)
				if ver == 3 && len(segs) > 0 {
					segs = segs[1:]
				} else {
					segs = append([]string{pf}, segs...)
				}
			case 2: // doubled prefix
				segs = append([]string{pf}, segs...)
			}
			labels = append(labels, "prefix-edit")
		case 9: // add a metric of a (possibly higher) level with a legal value
			m := rapid.SampledFrom(tab).Draw(t, "am")
			insertAt(m.Name + ":" + rapid.SampledFrom(m.Codes).Draw(t, "av"))
			labels = append(labels, "add-metric")
		case 10: // v2: drop the tail of a group (partial group); v3: drop the last token
			if len(segs) > first {
				k := rapid.IntRange(1, min(3, len(segs)-first)).Draw(t, "tail")
				segs = segs[:len(segs)-k]
				labels = append(labels, "truncate")
			}
		case 11: // reverse / rotate the token order
			body := append([]string(nil), segs[first:]...)
			for i, j := 0, len(body)-1; i < j; i, j = i+1, j-1 {
				body[i], body[j] = body[j], body[i]
			}
			segs = append(segs[:first:first], body...)
			labels = append(labels, "reverse-order")
		case 12: // lower-case one token
			if i := pos(); i >= 0 {
				segs[i] = strings.ToLower(segs[i])
				labels = append(labels, "lower-case")
			}
		case 13: // surrounding whitespace / wrappers that lenient parsers tend to strip
			if len(segs) > 0 {
				switch rapid.IntRange(0, 3).Draw(t, "wrap") {
				case 0:
					segs[0] = rapid.SampledFrom([]string{" ", "\t", "\n", "\r\n", "\ufeff", "\u00a0", "\v", "\f", "("}).Draw(t, "lead") + segs[0]
				case 1:
					segs[len(segs)-1] += rapid.SampledFrom([]string{" ", "\n", "\t", "\r", "\r\n", "\u00a0", "\v", "\f", "\x00", ")", ";", ",", "."}).Draw(t, "trail")
				case 2: // wrapped: parentheses, quotes, brackets
					w := rapid.SampledFrom([]string{"()", "\"\"", "[]", "''", "<>", "  "}).Draw(t, "pair")
					segs[0] = w[:1] + segs[0]
					segs[len(segs)-1] += w[1:]
				default: // whitespace inside a token
					i := rapid.IntRange(0, len(segs)-1).Draw(t, "wsi")
					segs[i] = strings.Replace(segs[i], ":", rapid.SampledFrom([]string{" :", ": ", ":\t", "\u00a0:"}).Draw(t, "innerws"), 1)
				}
				labels = append(labels, "whitespace")
			}
		default: // 14, 15: character-level edit of the joined string
			s := []rune(strings.Join(segs, "/"))
			op := rapid.IntRange(0, 3).Draw(t, "cop")
			switch {
			case op == 0 && len(s) > 0: // delete
				i := rapid.IntRange(0, len(s)-1).Draw(t, "ci")
				s = append(s[:i], s[i+1:]...)
			case op == 1: // insert
				i := rapid.IntRange(0, len(s)).Draw(t, "ci")
				ch := rapid.SampledFrom(vecAlphabet).Draw(t, "ch")
				s = append(s[:i], append([]rune{ch}, s[i:]...)...)
			case op == 2 && len(s) > 0: // replace
				i := rapid.IntRange(0, len(s)-1).Draw(t, "ci")
				s[i] = rapid.SampledFrom(vecAlphabet).Draw(t, "ch")
			case op == 3 && len(s) > 1: // transpose
				i := rapid.IntRange(0, len(s)-2).Draw(t, "ci")
				s[i], s[i+1] = s[i+1], s[i]
			}
			js := string(s)
			if rapid.IntRange(0, 3).Draw(t, "rawbyte") == 0 && len(js) > 0 { // a raw (possibly non-UTF-8) byte
				b := []byte(js)
				i := rapid.IntRange(0, len(b)-1).Draw(t, "bi")
				nb := byte(rapid.IntRange(0x7f, 0xff).Draw(t, "byteval"))
				if rapid.Bool().Draw(t, "byteins") {
					b = append(b[:i], append([]byte{nb}, b[i:]...)...)
				} else {
					b[i] = nb
				}
				js = string(b)
			}
			segs = strings.Split(js, "/")
			labels = append(labels, "char-edit")
		}
	}
	if len(labels) == 0 {
		labels = []string{"unmodified"}
	}
	return strings.Join(segs, "/"), labels, source
}

func splitSeg(seg string) (spec.Tok, bool) {
	i := strings.IndexByte(seg, ':')
	if i < 0 {
		return spec.Tok{}, false
	}
	return spec.Tok{Name: seg[:i], Value: seg[i+1:]}, true
}

// AnyString draws an arbitrary string: unicode text, raw bytes, or a string over the
// vector alphabet (so that separators and colons are dense).
func AnyString(t *rapid.T, maxLen int) (string, string) {
	switch rapid.IntRange(0, 3).Draw(t, "anykind") {
	case 0:
		return rapid.StringN(0, maxLen, -1).Draw(t, "str"), "any:unicode"
	case 1:
		return string(rapid.SliceOfN(rapid.Byte(), 0, maxLen).Draw(t, "bytes")), "any:bytes"
	case 2:
		return rapid.StringOfN(rapid.SampledFrom(vecAlphabet), 0, maxLen, -1).Draw(t, "alpha"), "any:alphabet"
	default: // token soup: well-formed-looking tokens in random number and order
		n := rapid.IntRange(0, 30).Draw(t, "ntok")
		var segs []string
		for i := 0; i < n; i++ {
			tab := spec.V3Metrics
			if rapid.Bool().Draw(t, "v2tab") {
				tab = spec.V2Metrics
			}
			m := rapid.SampledFrom(tab).Draw(t, "m")
			segs = append(segs, m.Name+":"+rapid.SampledFrom(m.Codes).Draw(t, "c"))
		}
		if rapid.Bool().Draw(t, "withprefix") {
			segs = append([]string{"CVSS:3.1"}, segs...)
		}
		return strings.Join(segs, "/"), "any:token-soup"
	}
}

// ---------------------------------------------------------------------------------
// Single-defect inputs (C11): exactly one defect kind by construction.

// SingleDefect builds, from a valid vector of exactly the decoder's level domain, an
// input exhibiting exactly one kind of defect. It returns the input, the decoder level it
// is meant for and the defect. ok=false when the drawn combination does not apply.
func SingleDefect(t *rapid.T, ver int) (input string, level spec.Level, d spec.Defect, label string, ok bool) {
	level = Level().Draw(t, "decoder")
	tab := tabOf(ver)
	v := Valid(ver, level).Draw(t, "src")
	if ver == 2 && rapid.Bool().Draw(t, "fullgroups") { // make sure higher groups are often present
		v = fullV2(t, level)
	}
	segs := segsOf(v)
	first := 0
	kinds := []spec.Defect{spec.DInvalidVector, spec.DUnsupportedMetric, spec.DSameMetric, spec.DInvalidValue, spec.DNoBase}
	if ver == 3 {
		first = 1
		kinds = append(kinds, spec.DUnsupportedVersion)
	} else {
		kinds = append(kinds, spec.DMisordered)
		if level >= spec.Temporal {
			kinds = append(kinds, spec.DNoTemporal)
		}
		if level >= spec.Environmental {
			kinds = append(kinds, spec.DNoEnvironmental)
		}
	}
	d = rapid.SampledFrom(kinds).Draw(t, "defect")
	ins := func(s string) {
		i := rapid.IntRange(first, len(segs)).Draw(t, "at")
		segs = append(segs[:i], append([]string{s}, segs[i:]...)...)
	}
	switch d {
	case spec.DInvalidVector:
		if ver == 3 && rapid.IntRange(0, 2).Draw(t, "where") == 0 {
			segs[0] = rapid.SampledFrom([]string{"CVSS3.1", "cvss:3.1", "CVSS:3.1:1", "CVSS", "XXXX:3.1", " CVSS:3.1", "CVSS :3.1", "CVSS:3.1:"}).Draw(t, "badprefix")
			label = "malformed-prefix"
		} else {
			ins(rapid.SampledFrom([]string{"", "foo", "a:b:c", ":x", "x:", ":", "::", "ZZ", "AVN"}).Draw(t, "badtok"))
			label = "malformed-token"
		}
	case spec.DUnsupportedVersion:
		segs[0] = rapid.SampledFrom([]string{"CVSS:2.0", "CVSS:3.2", "CVSS:4.0", "CVSS:3", "CVSS:3.10", "CVSS:1.0", "CVSS:3.1 ", "CVSS: 3.1", "CVSS:v3.1", "CVSS:31"}).Draw(t, "badver")
		label = "other-version"
	case spec.DSameMetric:
		i := rapid.IntRange(first, len(segs)-1).Draw(t, "which")
		tk, _ := splitSeg(segs[i])
		m := spec.ByName(tab, tk.Name)
		dup := tk.Name + ":" + rapid.SampledFrom(m.Codes).Draw(t, "dupval")
		if ver == 2 {
			// keep canonical relative order: the duplicate directly follows the original
			segs = append(segs[:i+1], append([]string{dup}, segs[i+1:]...)...)
		} else {
			j := rapid.IntRange(i+1, len(segs)).Draw(t, "at")
			segs = append(segs[:j], append([]string{dup}, segs[j:]...)...)
		}
		label = "repeated:" + tk.Name
	case spec.DInvalidValue:
		i := rapid.IntRange(first, len(segs)-1).Draw(t, "which")
		tk, _ := splitSeg(segs[i])
		m := spec.ByName(tab, tk.Name)
		var cand []string
		for _, om := range tab {
			for _, c := range om.Codes {
				if !m.Has(c) {
					cand = append(cand, c)
				}
			}
		}
		cand = append(cand, "Z", "0", strings.ToLower(tk.Value), "XX", "NDX")
		val := rapid.SampledFrom(cand).Draw(t, "badval")
		if m.Has(val) || val == "" {
			return "", level, d, "", false
		}
		segs[i] = tk.Name + ":" + val
		label = "bad-value:" + tk.Name
	case spec.DUnsupportedMetric:
		var cand []string
		for _, name := range unknownNames {
			if spec.ByName(tab, name) == nil && !strings.ContainsAny(name, ":/") {
				cand = append(cand, name+":N")
			}
		}
		for _, m := range tab {
			if m.Level > level {
				cand = append(cand, m.Name+":"+m.Codes[len(m.Codes)-1])
			}
		}
		if ver == 2 {
			cand = append(cand, "CVSS:2.0")
		}
		ins(rapid.SampledFrom(cand).Draw(t, "extra"))
		label = "extra-unsupported-name"
	case spec.DNoBase:
		nb := 6
		if ver == 3 {
			nb = 8
		}
		// drop one or two base tokens (v3: wherever they are)
		drop := rapid.IntRange(1, 2).Draw(t, "ndrop")
		for k := 0; k < drop; k++ {
			var idx []int
			for i := first; i < len(segs); i++ {
				tk, _ := splitSeg(segs[i])
				if m := spec.ByName(tab, tk.Name); m != nil && m.Level == spec.Base {
					idx = append(idx, i)
				}
			}
			if len(idx) == 0 {
				break
			}
			i := rapid.SampledFrom(idx).Draw(t, "dropidx")
			segs = append(segs[:i], segs[i+1:]...)
		}
		_ = nb
		label = "missing-base-metric"
	case spec.DNoTemporal, spec.DNoEnvironmental:
		grp := spec.V2T()
		if d == spec.DNoEnvironmental {
			grp = spec.V2E()
		}
		// make sure the group is present, then drop 1..len-1 of its tokens
		vv := fullV2(t, level)
		segs = segsOf(vv)
		k := rapid.IntRange(1, len(grp)-1).Draw(t, "ndrop")
		for ; k > 0; k-- {
			var idx []int
			for i, s := range segs {
				tk, _ := splitSeg(s)
				for _, m := range grp {
					if m.Name == tk.Name {
						idx = append(idx, i)
					}
				}
			}
			i := rapid.SampledFrom(idx).Draw(t, "dropidx")
			segs = append(segs[:i], segs[i+1:]...)
		}
		label = "partial-group"
	case spec.DMisordered:
		if len(segs) < 2 {
			return "", level, d, "", false
		}
		orig := strings.Join(segs, "/")
		segs = rapid.Permutation(segs).Draw(t, "perm")
		if strings.Join(segs, "/") == orig {
			segs[0], segs[1] = segs[1], segs[0]
		}
		label = "permuted"
	}
	return strings.Join(segs, "/"), level, d, label, true
}

// fullV2 draws a canonical v2 vector with every group up to the level present.
func fullV2(t *rapid.T, level spec.Level) spec.Vec {
	var v spec.Vec
	for _, m := range spec.UpTo(spec.V2Metrics, level) {
		v.Toks = append(v.Toks, spec.Tok{Name: m.Name, Value: rapid.SampledFrom(m.Codes).Draw(t, "f"+m.Name)})
	}
	return v
}

// ---------------------------------------------------------------------------------
// Bounded-exhaustive neighbourhood (deterministic): every single-token replacement,
// insertion and deletion over a token vocabulary, at every position.

// TokenVocabulary returns the candidate tokens for a version: (all names + wrong-case +
// unknown + empty) x (all codes + X + lower case + junk + empty) plus malformed forms.
func TokenVocabulary(ver int) []string {
	tab := tabOf(ver)
	nameSet := map[string]bool{"": true, "ZZ": true, "CVSS": true, "av": true, "Av": true, " AV": true}
	valSet := map[string]bool{"": true, "X": true, "n": true, "x": true, "0": true, "ND": true, "nd": true, "Z": true, "3.1": true, "2.0": true, "\x80": true, "\xff": true, "é": true, " ": true}
	for _, m := range tab {
		nameSet[m.Name] = true
		for _, c := range m.Codes {
			valSet[c] = true
		}
	}
	var out []string
	for n := range nameSet {
		for v := range valSet {
			out = append(out, n+":"+v)
		}
	}
	out = append(out, "", "AV", "AV:N:L", "AV::N", "::", "/")
	sortStrings(out)
	return out
}

func sortStrings(s []string) {
	for i := 1; i < len(s); i++ {
		for j := i; j > 0 && s[j] < s[j-1]; j-- {
			s[j], s[j-1] = s[j-1], s[j]
		}
	}
}

// Neighbourhood calls f with every single-token edit of the vector's segments.
func Neighbourhood(v spec.Vec, vocab []string, f func(s string, edit string)) {
	segs := segsOf(v)
	join := func(x []string) string { return strings.Join(x, "/") }
	for i := range segs {
		// deletion
		d := append(append([]string(nil), segs[:i]...), segs[i+1:]...)
		f(join(d), "delete")
		for _, tok := range vocab {
			r := append([]string(nil), segs...)
			r[i] = tok
			f(join(r), "replace")
		}
	}
	for i := 0; i <= len(segs); i++ {
		for _, tok := range vocab {
			r := append(append(append([]string(nil), segs[:i]...), tok), segs[i:]...)
			f(join(r), "insert")
		}
	}
}

// EnumSingleDefects enumerates deterministically, for a valid vector v and a decoder
// level that covers all its tokens, inputs with exactly one defect kind: every kind x
// every token x (where it matters) every position.
func EnumSingleDefects(ver int, v spec.Vec, level spec.Level, f func(input string, d spec.Defect, label string)) {
	tab := tabOf(ver)
	segs := segsOf(v)
	first := 0
	if ver == 3 {
		first = 1
	}
	join := func(x []string) string { return strings.Join(x, "/") }
	with := func(i int, s string) []string { // insertion
		return append(append(append([]string(nil), segs[:i]...), s), segs[i:]...)
	}
	repl := func(i int, s string) []string {
		r := append([]string(nil), segs...)
		r[i] = s
		return r
	}
	// invalid value: every token x every code of any metric that is not legal here + junk
	for i := first; i < len(segs); i++ {
		tk, _ := splitSeg(segs[i])
		m := spec.ByName(tab, tk.Name)
		seen := map[string]bool{}
		var cand []string
		for _, om := range tab {
			cand = append(cand, om.Codes...)
		}
		cand = append(cand, junkValues...)
		for _, val := range cand {
			if m.Has(val) || seen[val] || val == "" || strings.ContainsAny(val, ":/") {
				continue
			}
			seen[val] = true
			f(join(repl(i, tk.Name+":"+val)), spec.DInvalidValue, "bad-value:"+tk.Name)
		}
	}
	// repeated metric: every token x every legal value x every later position
	for i := first; i < len(segs); i++ {
		tk, _ := splitSeg(segs[i])
		m := spec.ByName(tab, tk.Name)
		for _, val := range m.Codes {
			if ver == 2 {
				f(join(with(i+1, tk.Name+":"+val)), spec.DSameMetric, "repeated:"+tk.Name)
				continue
			}
			for j := i + 1; j <= len(segs); j++ {
				f(join(with(j, tk.Name+":"+val)), spec.DSameMetric, "repeated:"+tk.Name)
			}
		}
	}
	// unsupported metric: extra token with an unknown / higher-level name at every position
	var extra []string
	for _, name := range unknownNames {
		if spec.ByName(tab, name) == nil {
			extra = append(extra, name+":N")
		}
	}
	for _, m := range tab {
		if m.Level > level {
			for _, c := range m.Codes {
				extra = append(extra, m.Name+":"+c)
			}
		}
	}
	if ver == 2 {
		extra = append(extra, "CVSS:2.0")
	}
	for _, x := range extra {
		for j := first; j <= len(segs); j++ {
			f(join(with(j, x)), spec.DUnsupportedMetric, "extra-unsupported-name")
		}
	}
	// malformed token at every position; malformed prefix
	for _, x := range []string{"", "foo", "a:b:c", ":x", "x:", ":", "::", "ZZ", "AVN", "E", " "} {
		for j := first; j <= len(segs); j++ {
			f(join(with(j, x)), spec.DInvalidVector, "malformed-token")
		}
	}
	if ver == 3 {
		for _, p := range []string{"CVSS3.1", "cvss:3.1", "CVSS:3.1:1", "CVSS", "XXXX:3.1", " CVSS:3.1", "CVSS :3.1", "CVSS:3.1:", "", "Cvss:3.0", "CVSS;3.1"} {
			f(join(repl(0, p)), spec.DInvalidVector, "malformed-prefix")
		}
		for _, p := range []string{"CVSS:2.0", "CVSS:3.2", "CVSS:4.0", "CVSS:3", "CVSS:3.10", "CVSS:1.0", "CVSS:3.1 ", "CVSS: 3.1", "CVSS:v3.1", "CVSS:31", "CVSS:3.", "CVSS:.1", "CVSS:3,1"} {
			f(join(repl(0, p)), spec.DUnsupportedVersion, "other-version")
		}
	}
	// missing base metric: every single base token and every pair
	var baseIdx []int
	for i := first; i < len(segs); i++ {
		tk, _ := splitSeg(segs[i])
		if m := spec.ByName(tab, tk.Name); m != nil && m.Level == spec.Base {
			baseIdx = append(baseIdx, i)
		}
	}
	del := func(idx ...int) []string {
		var r []string
		for i, s := range segs {
			skip := false
			for _, d := range idx {
				if d == i {
					skip = true
				}
			}
			if !skip {
				r = append(r, s)
			}
		}
		return r
	}
	for a, i := range baseIdx {
		f(join(del(i)), spec.DNoBase, "missing-base-metric")
		for _, j := range baseIdx[a+1:] {
			f(join(del(i, j)), spec.DNoBase, "missing-base-metric")
		}
	}
	if ver == 2 {
		// partial groups: every non-empty proper subset of a present group removed
		for _, g := range []struct {
			ms []*spec.Metric
			d  spec.Defect
		}{{spec.V2T(), spec.DNoTemporal}, {spec.V2E(), spec.DNoEnvironmental}} {
			var idx []int
			for i, s := range segs {
				tk, _ := splitSeg(s)
				for _, m := range g.ms {
					if m.Name == tk.Name {
						idx = append(idx, i)
					}
				}
			}
			if len(idx) != len(g.ms) {
				continue
			}
			for mask := 1; mask < (1<<len(idx))-1; mask++ {
				var drop []int
				for b, i := range idx {
					if mask&(1<<b) != 0 {
						drop = append(drop, i)
					}
				}
				f(join(del(drop...)), g.d, "partial-group")
			}
		}
		// misordered: every transposition of two tokens
		for i := 0; i < len(segs); i++ {
			for j := i + 1; j < len(segs); j++ {
				r := append([]string(nil), segs...)
				r[i], r[j] = r[j], r[i]
				f(join(r), spec.DMisordered, "transposed")
			}
		}
	}
}

// SmallVocabulary is a reduced token vocabulary for the double-edit neighbourhood: one
// legal token per metric plus a representative of every defect class.
func SmallVocabulary(ver int) []string {
	tab := tabOf(ver)
	var out []string
	for _, m := range tab {
		out = append(out, m.Name+":"+m.Codes[0], m.Name+":"+m.Codes[len(m.Codes)-1])
	}
	out = append(out, "", "ZZ:N", "av:N", "AV:n", "AV:X", "AV", "AV:N:L", ":N", "AV:", "CVSS:3.1", "CVSS:3.0", "CVSS:2.0", " ")
	return out
}

// Neighbourhood2 calls f with every pair of single-token edits (replace or insert at two
// positions i < j) over the small vocabulary.
func Neighbourhood2(v spec.Vec, vocab []string, f func(s string)) {
	segs := segsOf(v)
	join := func(x []string) string { return strings.Join(x, "/") }
	for i := 0; i <= len(segs); i++ {
		for _, a := range vocab {
			for _, ia := range []bool{false, true} { // replace / insert at i
				if !ia && i == len(segs) {
					continue
				}
				var first []string
				if ia {
					first = append(append(append([]string(nil), segs[:i]...), a), segs[i:]...)
				} else {
					first = append([]string(nil), segs...)
					first[i] = a
				}
				for j := i + 1; j <= len(first); j++ {
					for _, b := range vocab {
						if j < len(first) {
							r := append([]string(nil), first...)
							r[j] = b
							f(join(r))
						}
						r := append(append(append([]string(nil), first[:j]...), b), first[j:]...)
						f(join(r))
					}
				}
			}
		}
	}
}
