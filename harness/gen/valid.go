// Package gen holds the rapid generators. Every random choice goes through rapid so that
// failures shrink and replay.
package gen

import (
	"pgregory.net/rapid"
	"verif/harness/spec"
)

// ValidV3 generates a well-formed v3 vector whose tokens all belong to levels <= level:
// random version, all eight base metrics, an independently chosen subset of the optional
// metrics (values include X), tokens in a random order (canonical order with
// probability about 1/4).
func ValidV3(level spec.Level) *rapid.Generator[spec.Vec] {
	return rapid.Custom(func(t *rapid.T) spec.Vec {
		v := spec.Vec{Ver: rapid.SampledFrom(spec.V3Versions).Draw(t, "ver")}
		// density of optional metrics: none at all, sparse, half, all — so that "no token of
		// a level the decoder supports" and "everything written" are both common
		density := rapid.SampledFrom([]int{0, 1, 2, 2, 4}).Draw(t, "density")
		for _, m := range spec.UpTo(spec.V3Metrics, level) {
			if m.Level != spec.Base {
				if density == 0 || (density < 4 && rapid.IntRange(0, 3).Draw(t, "has"+m.Name) >= density) {
					continue
				}
			}
			v.Toks = append(v.Toks, spec.Tok{Name: m.Name, Value: rapid.SampledFrom(m.Codes).Draw(t, m.Name)})
		}
		if rapid.IntRange(0, 3).Draw(t, "shuffle") != 0 {
			v.Toks = rapid.Permutation(v.Toks).Draw(t, "order")
		}
		return v
	})
}

// FullV3 generates a canonical-order vector with every metric of the level written and
// defined with probability pDefined (in percent) — used where defined values matter.
func FullV3(level spec.Level, pDefined int) *rapid.Generator[spec.Vec] {
	return rapid.Custom(func(t *rapid.T) spec.Vec {
		v := spec.Vec{Ver: rapid.SampledFrom(spec.V3Versions).Draw(t, "ver")}
		for _, m := range spec.UpTo(spec.V3Metrics, level) {
			codes := m.Codes
			if m.Level != spec.Base && rapid.IntRange(0, 99).Draw(t, "def"+m.Name) < pDefined {
				codes = codes[1:] // index 0 is X
			}
			v.Toks = append(v.Toks, spec.Tok{Name: m.Name, Value: rapid.SampledFrom(codes).Draw(t, m.Name)})
		}
		return v
	})
}

// ValidV2 generates a canonical v2 vector: base, optionally the complete temporal group,
// optionally the complete environmental group (levels <= level only).
func ValidV2(level spec.Level) *rapid.Generator[spec.Vec] {
	return rapid.Custom(func(t *rapid.T) spec.Vec {
		var v spec.Vec
		add := func(ms []*spec.Metric) {
			for _, m := range ms {
				v.Toks = append(v.Toks, spec.Tok{Name: m.Name, Value: rapid.SampledFrom(m.Codes).Draw(t, m.Name)})
			}
		}
		add(spec.V2B())
		if level >= spec.Temporal && rapid.Bool().Draw(t, "hasT") {
			add(spec.V2T())
		}
		if level >= spec.Environmental && rapid.Bool().Draw(t, "hasE") {
			add(spec.V2E())
		}
		return v
	})
}

// Level generates a decoder level.
func Level() *rapid.Generator[spec.Level] {
	return rapid.SampledFrom([]spec.Level{spec.Base, spec.Temporal, spec.Environmental})
}
