package gen

import (
	"fmt"
	"strings"

	"pgregory.net/rapid"
	"verif/harness/spec"
)

// Structured hostile shapes derived from a valid vector: token floods around power-of-two
// boundaries, very long single tokens, Unicode look-alikes of the ASCII characters, and
// dense multi-byte text (byte length and rune count far apart). These are the inputs that
// "robustness" changes (bounded splits, counters, length guards, abbreviated error
// contexts, width / case folding) get wrong, and that neither random mutation nor a
// one-token neighbourhood reaches.

// BoundaryCounts are the repeat counts used for floods.
func BoundaryCounts(full bool) []int {
	c := []int{2, 3, 8, 15, 16, 17, 31, 32, 33, 63, 64, 65, 127, 128, 129, 255, 256, 257, 258, 511, 512, 513, 1023, 1024, 1025}
	if full {
		c = append(c, 4095, 4096, 4097, 65535, 65536, 65537)
	}
	return c
}

// BoundaryLengths are the lengths used for long single tokens.
func BoundaryLengths(full bool) []int {
	l := []int{8, 15, 16, 17, 31, 32, 33, 63, 64, 65, 127, 128, 129, 255, 256, 257, 1023, 1024, 1025}
	if full {
		l = append(l, 4096, 65535, 65536, 65537, 1<<20)
	}
	return l
}

func higherTokens(tab []*spec.Metric, level spec.Level) []string {
	var out []string
	for _, m := range tab {
		if m.Level > level {
			out = append(out, m.Name+":"+m.Codes[len(m.Codes)-1])
		}
	}
	return out
}

// floodTokens returns n tokens of the given kind for a decoder of the level; tok is a
// legal token of the vector (for the duplicate kinds).
func floodTokens(kind string, n int, tab []*spec.Metric, level spec.Level, tok spec.Tok) []string {
	out := make([]string, 0, n)
	hi := higherTokens(tab, level)
	m := spec.ByName(tab, tok.Name)
	for i := 0; i < n; i++ {
		switch kind {
		case "unknown-name":
			out = append(out, "ZZ:N")
		case "unknown-names-distinct":
			out = append(out, fmt.Sprintf("Z%d:N", i))
		case "higher-level":
			if len(hi) == 0 {
				out = append(out, "QQ:N")
			} else {
				out = append(out, hi[i%len(hi)])
			}
		case "dup-same":
			out = append(out, tok.String())
		case "dup-mixed":
			out = append(out, tok.Name+":"+m.Codes[i%len(m.Codes)])
		case "empty":
			out = append(out, "")
		default: // malformed
			out = append(out, "x")
		}
	}
	return out
}

var floodKinds = []string{"unknown-name", "unknown-names-distinct", "higher-level", "dup-same", "dup-mixed", "empty", "malformed"}

// Floods calls f with flood inputs built from v for a decoder of the level.
func Floods(ver int, v spec.Vec, level spec.Level, full bool, f func(s, label string)) {
	tab := tabOf(ver)
	segs := segsOf(v)
	first := 0
	if ver == 3 {
		first = 1
	}
	for _, kind := range floodKinds {
		for _, n := range BoundaryCounts(full) {
			if n > 1025 && (kind == "dup-mixed" || kind == "unknown-names-distinct") {
				continue
			}
			for ti, tok := range []spec.Tok{v.Toks[0], v.Toks[len(v.Toks)-1]} {
				if ti == 1 && kind != "dup-same" && kind != "dup-mixed" {
					continue
				}
				fl := floodTokens(kind, n, tab, level, tok)
				// appended
				f(strings.Join(append(append([]string(nil), segs...), fl...), "/"), "flood:"+kind+":append")
				// right after the prefix (v3) / at the start (v2)
				pre := append(append(append([]string(nil), segs[:first]...), fl...), segs[first:]...)
				f(strings.Join(pre, "/"), "flood:"+kind+":prepend")
				if kind == "dup-same" || kind == "dup-mixed" {
					// in place of the token itself: n consecutive occurrences in canonical position
					var in []string
					for _, s := range segs {
						if s == tok.String() {
							in = append(in, fl...)
						} else {
							in = append(in, s)
						}
					}
					f(strings.Join(in, "/"), "flood:"+kind+":in-place")
				}
			}
		}
	}
}

// LongTokens calls f with inputs carrying one very long token.
func LongTokens(ver int, v spec.Vec, full bool, f func(s, label string)) {
	segs := segsOf(v)
	last := len(segs) - 1
	tk, _ := splitSeg(segs[last])
	for _, n := range BoundaryLengths(full) {
		mk := func(tok string, replace bool) string {
			if replace {
				r := append([]string(nil), segs...)
				r[last] = tok
				return strings.Join(r, "/")
			}
			return strings.Join(append(append([]string(nil), segs...), tok), "/")
		}
		f(mk(tk.Name+":"+strings.Repeat("N", n), true), "long:value-replaced")
		f(mk(tk.Name+":"+strings.Repeat("Z", n), true), "long:junk-value-replaced")
		f(mk(strings.Repeat("Q", n)+":N", false), "long:unknown-name-extra")
		f(mk("ZZ:"+strings.Repeat("z", n), false), "long:unknown-name-long-value")
		f(mk(tk.String()+strings.Repeat(" ", n), true), "long:trailing-blanks")
		f(mk(strings.Repeat(":", n), false), "long:colons")
		if ver == 3 {
			r := append([]string(nil), segs...)
			r[0] = "CVSS:" + strings.Repeat("3", n)
			f(strings.Join(r, "/"), "long:version")
		}
	}
}

// fullWidth maps a printable ASCII character to its full-width form (U+FF01..U+FF5E).
func fullWidth(c rune) (rune, bool) {
	if c >= 0x21 && c <= 0x7e {
		return c - 0x21 + 0xff01, true
	}
	return 0, false
}

// foldTargets: characters that Unicode case folding / compatibility mapping sends to ASCII.
var foldTargets = map[rune][]rune{
	'S': {'ſ'}, 's': {'ſ'}, 'K': {'K'}, 'k': {'K'}, 'I': {'İ', 'ı'}, 'i': {'İ', 'ı'},
	'A': {'А', 'Å'}, 'C': {'С', 'Ç'}, 'N': {'Ν', 'Ñ'}, 'H': {'Н'}, 'P': {'Р'}, 'L': {'Ⅼ'}, 'V': {'Ⅴ'}, 'M': {'Ⅿ'}, 'X': {'Ⅹ'},
	'1': {'¹', '①'}, '3': {'³', '③'}, '0': {'⁰'}, '.': {'․', '。'}, ':': {'ː', '﹕', '∶'}, '/': {'⁄', '∕'},
}

var invisibles = []string{"\u200b", "\u200d", "\u00ad", "\u200e", "\ufeff", "\u0301", "\u2060"}

// Confusables calls f with Unicode look-alike variants of the vector string.
func Confusables(v spec.Vec, f func(s, label string)) {
	src := []rune(v.String())
	// every single character replaced by its full-width form; by its fold / look-alike forms
	for i, c := range src {
		if fw, ok := fullWidth(c); ok {
			r := append([]rune(nil), src...)
			r[i] = fw
			f(string(r), "unicode:fullwidth-char")
		}
		for _, alt := range foldTargets[c] {
			r := append([]rune(nil), src...)
			r[i] = alt
			f(string(r), "unicode:lookalike-char")
		}
	}
	// characters that alias an ASCII character when a rune is truncated to its low byte
	// (c + 0x100*k) or a byte to 7 bits (c | 0x80, not valid UTF-8)
	for i, c := range src {
		if c >= 0x21 && c <= 0x7e {
			for _, off := range []rune{0x100, 0x200, 0x400, 0x1000, 0x10000} {
				r := append([]rune(nil), src...)
				r[i] = c + off
				f(string(r), "unicode:low-byte-alias")
			}
			b := []byte(string(src))
			// byte offset of rune i (src is ASCII up to here in the vectors used)
			if len(b) == len(src) {
				b[i] = byte(c) | 0x80
				f(string(b), "unicode:high-bit-alias")
			}
		}
	}
	// whole string, all letters, all digits, all separators in full-width
	for _, which := range []string{"all", "letters", "digits", "separators"} {
		r := append([]rune(nil), src...)
		for i, c := range r {
			isL := (c >= 'A' && c <= 'Z') || (c >= 'a' && c <= 'z')
			isD := c >= '0' && c <= '9'
			if which == "all" || (which == "letters" && isL) || (which == "digits" && isD) || (which == "separators" && !isL && !isD) {
				if fw, ok := fullWidth(c); ok {
					r[i] = fw
				}
			}
		}
		f(string(r), "unicode:fullwidth-"+which)
	}
	// an invisible / combining character at every position
	for _, inv := range invisibles {
		for i := 0; i <= len(src); i += 1 {
			f(string(src[:i])+inv+string(src[i:]), "unicode:invisible")
		}
	}
}

var denseRunes = []string{"漢", "字", "😀", "\U0001F469‍\U0001F4BB", "ﷺ", "𝔘"}

// Dense calls f with inputs whose byte length and rune count are far apart.
func Dense(v spec.Vec, full bool, f func(s, label string)) {
	base := v.String()
	counts := []int{1, 2, 32, 50, 64, 65, 85, 86, 87, 99, 100, 101, 128, 200, 256, 257}
	if full {
		counts = append(counts, 1000, 4096, 65536)
	}
	for _, unit := range denseRunes {
		for _, n := range counts {
			d := strings.Repeat(unit, n)
			f(d, "dense:whole-input")
			f(base+"/ZZ:"+d, "dense:extra-token-value")
			f(base+"/"+d+":N", "dense:extra-token-name")
			f(base+d, "dense:suffix")
			f(d+base, "dense:prefix")
			if len(v.Toks) > 0 {
				t := v.Toks[len(v.Toks)-1]
				f(strings.TrimSuffix(base, t.Value)+d, "dense:last-value")
			}
		}
	}
}

// ValueRuns replaces each token's value by concatenations of codes of the same metric:
// every ordered pair, every contiguous run of the table order and of its reverse (a lookup
// by substring / prefix / index-of would accept some of them).
func ValueRuns(ver int, v spec.Vec, f func(s, label string)) {
	tab := tabOf(ver)
	segs := segsOf(v)
	first := 0
	if ver == 3 {
		first = 1
	}
	for i := first; i < len(segs); i++ {
		tk, _ := splitSeg(segs[i])
		m := spec.ByName(tab, tk.Name)
		if m == nil {
			continue
		}
		seen := map[string]bool{}
		try := func(val string) {
			if m.Has(val) || seen[val] || val == "" {
				return
			}
			seen[val] = true
			r := append([]string(nil), segs...)
			r[i] = tk.Name + ":" + val
			f(strings.Join(r, "/"), "value-run")
		}
		for _, a := range m.Codes {
			for _, b := range m.Codes {
				try(a + b)
			}
		}
		for _, order := range [][]string{m.Codes, reversed(m.Codes), sorted(m.Codes)} {
			for a := 0; a < len(order); a++ {
				for b := a + 2; b <= len(order); b++ {
					try(strings.Join(order[a:b], ""))
				}
			}
		}
		// the orders a hand-written lookup string would plausibly use
		for _, hand := range []string{"XNLH", "XLMH", "XHML", "NLH", "HLN", "XNALP", "NALP", "PLAN", "XUC", "XUPFH", "XOTWU", "XURC", "NDLMH", "LMHND", "NPC", "LAN", "HML"} {
			for a := 0; a < len(hand); a++ {
				for b := a + 2; b <= len(hand); b++ {
					try(hand[a:b])
				}
			}
		}
	}
}

func reversed(s []string) []string {
	r := make([]string, len(s))
	for i := range s {
		r[len(s)-1-i] = s[i]
	}
	return r
}

func sorted(s []string) []string {
	r := append([]string(nil), s...)
	sortStrings(r)
	return r
}

// Moves calls f with every transposition of two tokens and every single-token move.
func Moves(v spec.Vec, f func(s, label string)) {
	segs := segsOf(v)
	first := 0
	if v.Ver != "" {
		first = 1
	}
	for i := first; i < len(segs); i++ {
		for j := i + 1; j < len(segs); j++ {
			r := append([]string(nil), segs...)
			r[i], r[j] = r[j], r[i]
			f(strings.Join(r, "/"), "move:transposition")
		}
		for j := first; j < len(segs); j++ {
			if j == i {
				continue
			}
			var r []string
			for k, s := range segs {
				if k == i {
					continue
				}
				if len(r) == j {
					r = append(r, segs[i])
				}
				r = append(r, s)
			}
			if len(r) == j || len(r) < len(segs) {
				r = append(r, segs[i])
			}
			f(strings.Join(r, "/"), "move:single-token")
		}
	}
}

// BlockMoves calls f with every move of a contiguous block of two or more tokens to every
// other position (single tokens are Moves' business): whole metric groups behind or in front
// of one another, halves of groups, a group pushed into the middle of another.
func BlockMoves(v spec.Vec, f func(s, label string)) {
	segs := segsOf(v)
	first := 0
	if v.Ver != "" {
		first = 1
	}
	toks := segs[first:]
	n := len(toks)
	for k := 2; k < n; k++ {
		for a := 0; a+k <= n; a++ {
			block := toks[a : a+k]
			rest := append(append([]string(nil), toks[:a]...), toks[a+k:]...)
			for to := 0; to <= len(rest); to++ {
				if to == a {
					continue
				}
				r := append([]string(nil), segs[:first]...)
				r = append(r, rest[:to]...)
				r = append(r, block...)
				r = append(r, rest[to:]...)
				f(strings.Join(r, "/"), "move:block")
			}
		}
	}
}

// ByteRuns calls f with long runs of one "special" byte (UTF-8 continuation bytes, lead
// bytes without continuation, invalid bytes, NUL, DEL) as the whole input, in front of and
// behind a valid vector, and inside a token.
func ByteRuns(v spec.Vec, full bool, f func(s, label string)) {
	base := v.String()
	lens := []int{1, 2, 3, 4, 63, 64, 65, 127, 128, 129, 130, 255, 256, 257, 258, 1024}
	if full {
		lens = append(lens, 4096, 65536, 65537)
	}
	for _, b := range []byte{0x00, 0x7f, 0x80, 0xa0, 0xbf, 0xc0, 0xc2, 0xe0, 0xed, 0xf0, 0xf4, 0xf8, 0xfe, 0xff} {
		for _, n := range lens {
			run := strings.Repeat(string([]byte{b}), n)
			f(run, "bytes:whole-input")
			f(run+base, "bytes:prefix")
			f(base+run, "bytes:suffix")
			f(base+"/ZZ:"+run, "bytes:extra-token-value")
			f(run+"/"+base, "bytes:leading-token")
		}
	}
}

// Shapes runs all of the above for one vector and decoder level.
// Presentations: the ways vectors are written in advisories, scanner output, databases and
// configuration files — scheme labels in front (NVD, Nessus / OpenVAS "CVSS2#", "CVSS:2.0/",
// a "CVSS3#" label in front of a prefixed vector), wrappers (parentheses as in NVD's v2
// notation, brackets, quotes, angle brackets), a score or severity attached, key=value
// forms, and line / field terminators. Every one is the valid vector with something around
// it, so no decoder may accept it; labels are combined with every wrapper.
var schemeLabels = []string{"CVSS2#", "CVSS3#", "CVSS#", "cvss2#", "CVSS2:", "CVSS:2.0/", "CVSS:2/", "CVSS:2.0#", "CVSSv2#", "CVSSv2:", "CVSSv2/", "CVSS2/", "CVSS/", "CVSS:", "CVSS2 ", "CVSS ", "v2:", "V2#", "2.0/", "cvss:", "cvss=", "vector:", "vector=", "Vector: ", "CVSS:3.1#", "CVSS3:", "CVSSv3#", "CVSSv3.1:", "CVSS3.1/", "CVSS:3.1 ", "AV:", "#", "/", "//", ":", "=", "?", "!", "~", "@", "$", "^", "&", "*", "+", "-", "_", ".", ",", ";", "|", "\\", "%", "0", "1"}
var wrappers = [][2]string{{"(", ")"}, {"[", "]"}, {"{", "}"}, {"<", ">"}, {"\"", "\""}, {"'", "'"}, {"`", "`"}, {"((", "))"}, {"( ", " )"}, {"(", ""}, {"", ")"}, {"[", ""}, {"", "]"}, {"\"", ""}, {"", "\""}, {"“", "”"}, {"«", "»"}, {"（", "）"}}
var trailers = []string{"/", "//", " ", "\n", "\r\n", "\t", "\x00", ";", ",", ".", "#", "?", "&", " (9.8)", " 9.8", "/9.8", " CRITICAL", " High", "=9.8", "%00", "%0A", "\\n", "\u2028", "\u0085"}

func Presentations(v spec.Vec, f func(s, label string)) {
	base := v.String()
	bodies := []string{base}
	if v.Ver != "" { // v3: also the vector without its own prefix behind a label
		bodies = append(bodies, strings.TrimPrefix(base, "CVSS:"+v.Ver+"/"))
	}
	for bi, b := range bodies {
		for _, l := range schemeLabels {
			f(l+b, "present:label")
			if bi == 0 {
				f(b+l, "present:label-behind")
			}
			for _, w := range wrappers[:7] {
				f(l+w[0]+b+w[1], "present:label+wrapper")
				f(w[0]+l+b+w[1], "present:wrapper+label")
			}
		}
		for _, w := range wrappers {
			f(w[0]+b+w[1], "present:wrapper")
		}
		for _, tr := range trailers {
			f(b+tr, "present:trailer")
			f(tr+b, "present:leader")
			f("("+b+")"+tr, "present:wrapper+trailer")
		}
	}
}

// Encodings: the vector as it looks after passing through a URL, an HTML page, a JSON or
// source-code literal, or a mail body: one character, one class of characters (separators,
// colons, letters, digits) or everything replaced by its percent / entity / backslash /
// quoted-printable escape. A decoder that unescapes before parsing accepts these.
func escapeForms(c byte) []string {
	return []string{
		fmt.Sprintf("%%%02X", c), fmt.Sprintf("%%%02x", c), fmt.Sprintf("%%25%02X", c),
		fmt.Sprintf("&#%d;", c), fmt.Sprintf("&#x%02X;", c), fmt.Sprintf("&#x%02x;", c),
		fmt.Sprintf("\\x%02x", c), fmt.Sprintf("\\u%04x", c), fmt.Sprintf("\\%03o", c), fmt.Sprintf("=%02X", c),
	}
}

var namedEntities = map[byte]string{':': "&colon;", '/': "&sol;", '.': "&period;"}

func Encodings(v spec.Vec, f func(s, label string)) {
	base := v.String()
	// one position at a time, every escape form
	for i := 0; i < len(base); i++ {
		for _, e := range escapeForms(base[i]) {
			f(base[:i]+e+base[i+1:], "encoded:one-character")
		}
		if e, ok := namedEntities[base[i]]; ok {
			f(base[:i]+e+base[i+1:], "encoded:one-character")
		}
	}
	// whole classes
	classes := map[string]func(c byte) bool{
		"separators": func(c byte) bool { return c == '/' },
		"colons":     func(c byte) bool { return c == ':' },
		"punctuation": func(c byte) bool {
			return c == '/' || c == ':' || c == '.'
		},
		"letters":    func(c byte) bool { return c >= 'A' && c <= 'Z' },
		"digits":     func(c byte) bool { return c >= '0' && c <= '9' },
		"everything": func(c byte) bool { return true },
	}
	for _, name := range []string{"separators", "colons", "punctuation", "letters", "digits", "everything"} {
		for k := range escapeForms('A') {
			var b strings.Builder
			for i := 0; i < len(base); i++ {
				if classes[name](base[i]) {
					b.WriteString(escapeForms(base[i])[k])
				} else {
					b.WriteByte(base[i])
				}
			}
			f(b.String(), "encoded:class:"+name)
		}
	}
	f(strings.ReplaceAll(base, "/", "+"), "encoded:plus")
	f(strings.ReplaceAll(base, ":", "="), "encoded:equals")
	f(strings.ReplaceAll(base, "/", "&"), "encoded:ampersand")
	f(strings.ReplaceAll(strings.ReplaceAll(base, ":", "="), "/", "&"), "encoded:query-string")
	f(strings.ReplaceAll(base, "/", "\\/"), "encoded:json-slash")
}

// ControlPrefixes: one to three low bytes (0..8, the range of name and value lengths) in
// front of, behind, or instead of the first character of a token's name or value; also an
// extra copy of the token carrying them (a hidden duplicate). A parser that folds a name
// into an integer together with its length, or that skips bytes below a threshold, takes
// exactly these for the plain name.
func ControlPrefixes(v spec.Vec, f func(s, label string)) {
	segs := segsOf(v)
	first := 0
	if v.Ver != "" {
		first = 1
	}
	join := func(i int, tok string, extra bool) string {
		out := append([]string(nil), segs...)
		if extra {
			out = append(out, tok)
		} else {
			out[i] = tok
		}
		return strings.Join(out, "/")
	}
	for i := first; i < len(segs); i++ {
		name, value, ok := strings.Cut(segs[i], ":")
		if !ok {
			continue
		}
		for b := 0; b <= 8; b++ {
			for _, pre := range []string{string([]byte{byte(b)}), string([]byte{0, byte(b)}), string([]byte{0, 0, byte(b)}), "ZZ" + string([]byte{byte(b)})} {
				f(join(i, pre+name+":"+value, false), "control:before-name")
				f(join(i, pre+name+":"+value, true), "control:hidden-duplicate")
				f(join(i, name+":"+pre+value, false), "control:before-value")
			}
			f(join(i, name+string([]byte{byte(b)})+":"+value, false), "control:after-name")
			f(join(i, name+":"+value+string([]byte{byte(b)}), false), "control:after-value")
		}
	}
	// the same in front of the version prefix
	if v.Ver != "" {
		for b := 0; b <= 8; b++ {
			f(string([]byte{byte(b)})+v.String(), "control:before-prefix")
			f(strings.Replace(v.String(), "CVSS:", "CVSS:"+string([]byte{byte(b)}), 1), "control:inside-prefix")
		}
	}
}

func Shapes(ver int, v spec.Vec, level spec.Level, full bool, f func(s, label string)) {
	ControlPrefixes(v, f)
	Encodings(v, f)
	Presentations(v, f)
	ValueRuns(ver, v, f)
	Moves(v, f)
	Floods(ver, v, level, full, f)
	LongTokens(ver, v, full, f)
	Confusables(v, f)
	Dense(v, full, f)
	ByteRuns(v, full, f)
}

// RandomShape draws one shaped input with rapid (random kind, count, position).
func RandomShape(t *rapid.T, ver int) (string, string) {
	lv := Level().Draw(t, "shapelevel")
	v := Valid(ver, lv).Draw(t, "shapesrc")
	tab := tabOf(ver)
	segs := segsOf(v)
	first := 0
	if ver == 3 {
		first = 1
	}
	switch rapid.IntRange(0, 4).Draw(t, "shapekind") {
	case 0, 1: // flood
		kind := rapid.SampledFrom(floodKinds).Draw(t, "floodkind")
		n := rapid.SampledFrom(BoundaryCounts(false)).Draw(t, "floodcount") + rapid.IntRange(-1, 1).Draw(t, "jitter")
		if n < 1 {
			n = 1
		}
		tok := rapid.SampledFrom(v.Toks).Draw(t, "floodtok")
		fl := floodTokens(kind, n, tab, lv, tok)
		at := rapid.IntRange(first, len(segs)).Draw(t, "floodat")
		out := append(append(append([]string(nil), segs[:at]...), fl...), segs[at:]...)
		return strings.Join(out, "/"), "shape:flood:" + kind
	case 2: // long token
		n := rapid.SampledFrom(BoundaryLengths(false)).Draw(t, "longlen") + rapid.IntRange(-1, 1).Draw(t, "jitter")
		i := rapid.IntRange(first, len(segs)-1).Draw(t, "longat")
		tk, _ := splitSeg(segs[i])
		switch rapid.IntRange(0, 2).Draw(t, "longkind") {
		case 0:
			segs[i] = tk.Name + ":" + strings.Repeat(rapid.SampledFrom([]string{"N", "Z", "x", "é"}).Draw(t, "unit"), n)
		case 1:
			segs = append(segs, strings.Repeat("Q", n)+":N")
		default:
			segs[i] = tk.String() + strings.Repeat(rapid.SampledFrom([]string{" ", "\t", "\x00", "/"}).Draw(t, "pad"), n)
		}
		return strings.Join(segs, "/"), "shape:long-token"
	case 3: // look-alike characters
		src := []rune(strings.Join(segs, "/"))
		k := rapid.IntRange(1, 3).Draw(t, "nsubst")
		for ; k > 0 && len(src) > 0; k-- {
			i := rapid.IntRange(0, len(src)-1).Draw(t, "ci")
			if alts := foldTargets[src[i]]; len(alts) > 0 && rapid.Bool().Draw(t, "fold") {
				src[i] = rapid.SampledFrom(alts).Draw(t, "alt")
			} else if fw, ok := fullWidth(src[i]); ok {
				src[i] = fw
			}
		}
		s := string(src)
		if rapid.IntRange(0, 3).Draw(t, "inv") == 0 {
			i := rapid.IntRange(0, len(src)).Draw(t, "invat")
			s = string(src[:i]) + rapid.SampledFrom(invisibles).Draw(t, "invch") + string(src[i:])
		}
		return s, "shape:unicode-lookalike"
	default: // dense multi-byte
		unit := rapid.SampledFrom(denseRunes).Draw(t, "dense")
		n := rapid.IntRange(1, 300).Draw(t, "densecount")
		d := strings.Repeat(unit, n)
		switch rapid.IntRange(0, 3).Draw(t, "densewhere") {
		case 0:
			return d, "shape:dense"
		case 1:
			return strings.Join(segs, "/") + "/ZZ:" + d, "shape:dense"
		case 2:
			return strings.Join(segs, "/") + d, "shape:dense"
		default:
			return d + strings.Join(segs, "/"), "shape:dense"
		}
	}
}
