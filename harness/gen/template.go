package gen

import (
	"fmt"
	"strings"

	"pgregory.net/rapid"
	"verif/harness/spec"
)

// Report field names per level (exported string fields of the report structs).
var (
	BaseRepFields = []string{"Version", "Vector", "BaseMetrics", "BaseMetricValue", "AVName", "AVValue", "ACName", "ACValue", "PRName", "PRValue", "UIName", "UIValue", "SName", "SValue", "CName", "CValue", "IName", "IValue", "AName", "AValue", "BaseScore", "SeverityName", "SeverityValue"}
	TempRepFields = []string{"TemporalMetrics", "TemporalMetricValue", "EName", "EValue", "RLName", "RLValue", "RCName", "RCValue", "TemporalScore"}
	EnvRepFields  = []string{"EnvironmentalMetrics", "EnvironmentalMetricValue", "CRName", "CRValue", "IRName", "IRValue", "ARName", "ARValue", "MAVName", "MAVValue", "MACName", "MACValue", "MPRName", "MPRValue", "MUIName", "MUIValue", "MSName", "MSValue", "MCName", "MCValue", "MIName", "MIValue", "MAName", "MAValue", "EnvironmentalScore"}
)

// commonFuncNames are function names that template helper libraries commonly add; none of
// them is defined by text/template, so a template using one must fail to parse.
var commonFuncNames = []string{"upper", "lower", "title", "toUpper", "toLower", "ToUpper", "ToLower", "trim", "trimSpace", "join", "split", "replace", "contains", "hasPrefix",
	"default", "quote", "squote", "safe", "safeHTML", "raw", "escape", "add", "sub", "inc", "now", "date", "env", "repeat", "indent", "nindent", "toJson", "toJSON", "json",
	"b64enc", "first", "last", "list", "dict", "ternary", "coalesce", "empty", "printf1", "sprintf", "string", "int", "float", "markdown", "urlize", "md", "color", "pad"}

// fieldRef draws a field reference; valid tells whether it exists on a report of level.
func fieldRef(t *rapid.T, level spec.Level) string {
	k := rapid.IntRange(0, 19).Draw(t, "fieldkind")
	pickFrom := func(l spec.Level) string {
		switch l {
		case spec.Base:
			return rapid.SampledFrom(BaseRepFields).Draw(t, "bf")
		case spec.Temporal:
			return rapid.SampledFrom(TempRepFields).Draw(t, "tf")
		}
		return rapid.SampledFrom(EnvRepFields).Draw(t, "ef")
	}
	switch {
	case k < 12: // a field of the report's own levels
		l := spec.Level(rapid.IntRange(0, int(level)).Draw(t, "flevel"))
		return "." + pickFrom(l)
	case k < 15: // through the embedded reports (shadowed fields)
		switch level {
		case spec.Temporal:
			return ".BaseReport." + pickFrom(spec.Base)
		case spec.Environmental:
			if rapid.Bool().Draw(t, "viaT") {
				return ".TemporalReport." + rapid.SampledFrom([]string{"Vector", "SeverityName", "SeverityValue", "TemporalScore", "EValue", "BaseScore"}).Draw(t, "tsf")
			}
			return rapid.SampledFrom([]string{".BaseReport.", ".TemporalReport.BaseReport."}).Draw(t, "bp") + pickFrom(spec.Base)
		}
		return "." + pickFrom(spec.Base)
	case k < 17: // a field of a higher level (execution error on lower reports)
		return "." + pickFrom(spec.Level(rapid.IntRange(0, 2).Draw(t, "anylevel")))
	case k < 18: // the embedded report value itself
		return rapid.SampledFrom([]string{".BaseReport", ".TemporalReport", "."}).Draw(t, "emb")
	default: // unknown / malformed field
		return rapid.SampledFrom([]string{".Nope", ".vector", ".Vector.X", ".AVName.Len", "..", ".BaseReport.Nope", ".TemporalReport.EnvironmentalScore", ".ｖ"}).Draw(t, "bad")
	}
}

func literal(t *rapid.T) string {
	switch rapid.IntRange(0, 5).Draw(t, "litkind") {
	case 0:
		return rapid.SampledFrom([]string{"", " ", "\n", "- ", ": ", " | ", "|--|--|\n", "# Report\n", "\t", "}}", "{", "}", "{ {", "<b>&\"'</b>", "%d", "\\n", "日本語 ", "\r\n", "`"}).Draw(t, "lit")
	case 1:
		return rapid.StringOfN(rapid.RuneFrom([]rune("abc XYZ.,:-_|()[]<>&\"'%\\\n\t}日本é")), 0, 12, -1).Draw(t, "littext")
	default:
		return rapid.SampledFrom([]string{" ", "\n", ", ", " = ", "x"}).Draw(t, "sep")
	}
}

func strLit(t *rapid.T) string {
	return rapid.SampledFrom([]string{`"High"`, `"Critical"`, `""`, `"x"`, `"%s|%s"`, `"%q"`, `"%v"`, `"%5s"`, `"%d"`, "`raw`", `"a\tb"`, `"None"`, `"3.1"`,
		// delimiters and action-like text inside string literals are ordinary characters
		`"{{"`, `"}}"`, `"{{ .Vector }}"`, "`{{ .%s }}`", `"{{/*"`, `"*/}}"`, `"\"{{"`, "`{{`"}).Draw(t, "strlit")
}

func arg(t *rapid.T, level spec.Level) string {
	switch rapid.IntRange(0, 5).Draw(t, "argkind") {
	case 0:
		return strLit(t)
	case 1:
		return rapid.SampledFrom([]string{"0", "1", "2", "-1", "100", "1.5", "true", "false", "nil", "'a'"}).Draw(t, "numlit")
	case 2:
		return "$x"
	default:
		return fieldRef(t, level)
	}
}

func pipeline(t *rapid.T, level spec.Level, depth int) string {
	switch rapid.IntRange(0, 15).Draw(t, "pipekind") {
	case 0, 1, 2, 3:
		return fieldRef(t, level)
	case 4:
		return fmt.Sprintf("printf %s %s", strLit(t), arg(t, level))
	case 5:
		return fmt.Sprintf("printf %s %s %s", strLit(t), arg(t, level), arg(t, level))
	case 6:
		return fmt.Sprintf("%s | %s", fieldRef(t, level), rapid.SampledFrom([]string{"html", "js", "urlquery", "len", "print", "println", `printf "%q"`, `printf "%10s"`, "not"}).Draw(t, "fn1"))
	case 7:
		return fmt.Sprintf("%s %s", rapid.SampledFrom([]string{"len", "html", "js", "urlquery", "print", "not"}).Draw(t, "fn"), arg(t, level))
	case 8:
		return fmt.Sprintf("index %s %s", arg(t, level), arg(t, level))
	case 9:
		return fmt.Sprintf("slice %s %s %s", fieldRef(t, level), rapid.SampledFrom([]string{"0", "1", "2"}).Draw(t, "lo"), rapid.SampledFrom([]string{"1", "2", "3", "100"}).Draw(t, "hi"))
	case 10:
		return fmt.Sprintf("%s %s %s", rapid.SampledFrom([]string{"eq", "ne", "lt", "le", "gt", "ge"}).Draw(t, "cmp"), arg(t, level), arg(t, level))
	case 11:
		return fmt.Sprintf("%s %s %s", rapid.SampledFrom([]string{"and", "or"}).Draw(t, "bool"), arg(t, level), arg(t, level))
	case 12:
		if depth > 0 {
			return fmt.Sprintf("print (%s) (%s)", pipeline(t, level, depth-1), pipeline(t, level, depth-1))
		}
		return fmt.Sprintf("print %s", arg(t, level))
	case 13: // functions text/template does not define (an export must not add any), wrong arity, dangling pipe
		if rapid.Bool().Draw(t, "extrafn") {
			fn := rapid.SampledFrom(commonFuncNames).Draw(t, "fnname")
			return rapid.SampledFrom([]string{fn + " .Vector", ".Vector | " + fn, fn, fn + " .Vector \",\"", fn + " 1 2"}).Draw(t, "fnform")
		}
		return rapid.SampledFrom([]string{"foo .Vector", "len", "printf", ".Vector |", "| html", "index .Vector", "eq .Vector", "call .Vector", ".Vector .Version", "html .Vector .Version | len", "1 | 2", "(", ")", "slice"}).Draw(t, "badpipe")
	case 14:
		return fmt.Sprintf("%s | %s | %s", fieldRef(t, level), rapid.SampledFrom([]string{"html", "print", "len"}).Draw(t, "f1"), rapid.SampledFrom([]string{"print", "printf \"%v\"", "js"}).Draw(t, "f2"))
	default:
		return arg(t, level)
	}
}

func action(t *rapid.T, level spec.Level, depth int, defs *[]string) string {
	open, cls := "{{", "}}"
	switch rapid.IntRange(0, 7).Draw(t, "trim") {
	case 0:
		open = "{{- "
	case 1:
		cls = " -}}"
	case 2:
		open, cls = "{{ ", " }}"
	}
	body := func() string {
		if depth <= 0 {
			return literal(t) + open + fieldRef(t, level) + cls
		}
		return Body(t, level, depth-1, defs)
	}
	switch rapid.IntRange(0, 27).Draw(t, "actkind") {
	case 0, 1, 2, 3, 4, 5, 6:
		return open + pipeline(t, level, 1) + cls
	case 7:
		return open + "if " + pipeline(t, level, 1) + cls + body() + "{{else}}" + body() + "{{end}}"
	case 8:
		return open + "if " + pipeline(t, level, 1) + cls + body() + "{{end}}"
	case 9:
		return open + "with " + pipeline(t, level, 1) + cls + rapid.SampledFrom([]string{"{{.}}", "{{. | len}}", "x", "{{.Vector}}"}).Draw(t, "withbody") + "{{end}}"
	case 10:
		return open + "range " + rapid.SampledFrom([]string{".Vector", ".AVName", ".", "$x", `"abc"`, "3", ".Nope"}).Draw(t, "rangeover") + cls + "{{.}}" + "{{end}}"
	case 11:
		return "{{$x := " + pipeline(t, level, 0) + "}}" + open + rapid.SampledFrom([]string{"$x", "$x | html", "len $x", "$y"}).Draw(t, "usevar") + cls
	case 12:
		return rapid.SampledFrom([]string{"{{/* comment */}}", "{{- /* c */ -}}", "{{/* unterminated }}", "{{/* {{ .Vector }} */}}", "{{/* }} {{ */}}", "{{ \"{{\" }}", "{{ `}}` }}{{ \"{{\" }}", "{{ print \"{{\" .Version \"}}\" }}"}).Draw(t, "comment")
	case 13:
		name := rapid.SampledFrom([]string{"a", "b", "row"}).Draw(t, "defname")
		for _, d := range *defs {
			if d == name {
				return open + "template \"" + name + "\" " + rapid.SampledFrom([]string{".", ".Vector", ""}).Draw(t, "tplarg") + cls
			}
		}
		*defs = append(*defs, name)
		// the body of a definition never calls templates (no recursion)
		var none []string
		return "{{define \"" + name + "\"}}" + literal(t) + "{{" + rapid.SampledFrom([]string{".", ".Vector", "len .", ".AVName"}).Draw(t, "defbody") + "}}{{end}}" + open + "template \"" + name + "\" " + rapid.SampledFrom([]string{".", ".Vector", ".AVName"}).Draw(t, "tplarg") + cls + Body(t, level, 0, &none)
	case 14:
		return "{{block \"" + rapid.SampledFrom([]string{"blk", "blk2"}).Draw(t, "blockname") + "\" .}}" + literal(t) + "{{.Version}}{{end}}"
	case 16: // else-if chains, with / range with else
		return rapid.SampledFrom([]string{
			"{{if eq .Version \"3.0\"}}a{{else if eq .Version \"3.1\"}}b{{else}}c{{end}}",
			"{{if .Nope}}a{{else if .Vector}}b{{end}}",
			"{{if not .Vector}}a{{else if .Vector}}" + open + fieldRef(t, level) + cls + "{{else}}c{{end}}",
			"{{with .Vector}}[{{.}}]{{else}}none{{end}}",
			"{{with \"\"}}x{{else}}" + open + fieldRef(t, level) + cls + "{{end}}",
			"{{with $v := .Version}}{{$v}}{{.}}{{end}}",
			"{{range \"\"}}x{{else}}empty{{end}}",
			"{{range .Nope}}x{{else}}empty{{end}}",
		}).Draw(t, "chain")
	case 17: // range forms: two variables, break / continue, ranges that fail at execution
		return rapid.SampledFrom([]string{
			"{{range $i, $c := .Version}}{{$i}}={{$c}};{{end}}",
			"{{range $i, $c := .Vector}}{{if eq $i 3}}{{break}}{{end}}{{$c}}{{end}}",
			"{{range $i, $c := .Version}}{{if eq $i 1}}{{continue}}{{end}}{{$i}}{{end}}",
			"{{range $i := .Version}}{{$i}}{{end}}",
			"{{range slice .Vector 0 4}}{{.}}{{end}}",
			"{{range 3}}{{.}}{{end}}",
			"{{range $k, $v := 2}}{{$k}}{{$v}}{{end}}",
		}).Draw(t, "rangeform")
	case 18: // variables across scopes
		return rapid.SampledFrom([]string{
			"{{$x := .Version}}{{if .Vector}}{{$x = \"changed\"}}{{end}}{{$x}}",
			"{{$x := 1}}{{with .Vector}}{{$x := 2}}{{$x}}{{end}}{{$x}}",
			"{{$x := .Vector}}{{range .Version}}{{$x = .}}{{end}}{{$x}}",
			"{{if .Vector}}{{$y := 1}}{{end}}{{$y}}",
			"{{$ := 1}}{{$}}",
			"{{$x := .Version}}{{template \"missing\" $x}}",
		}).Draw(t, "varscope")
	case 19: // output first, failure later (nothing of the partial output may come back)
		return literal(t) + open + fieldRef(t, level) + cls + rapid.SampledFrom([]string{
			"{{index .Vector 100000}}", "{{slice .Vector 5 2}}", "{{.Version.Nope}}", "{{template \"missing\" .}}", "{{len 3}}", "{{printf \"%d\" .Vector | len | index .Vector}}",
			"{{if .Vector}}{{template \"missing\"}}{{end}}", "{{if .Nope}}{{template \"missing\"}}{{end}}ok", "{{range .Version}}{{index $.Vector 99999}}{{end}}", "{{call .Vector}}", "{{eq .Vector 1}}", "{{lt .Version 3}}",
		}).Draw(t, "latefailure")
	case 20: // nested and late definitions, methods of the report
		return rapid.SampledFrom([]string{
			"{{define \"outer\"}}<{{template \"inner\" .}}>{{end}}{{define \"inner\"}}({{.}}){{end}}{{template \"outer\" .Version}}",
			"{{template \"late\" .Vector}}{{define \"late\"}}[{{.}}]{{end}}",
			"{{define \"d\"}}{{define \"e\"}}x{{end}}{{end}}",
			"{{block \"b\" .Version}}{{block \"c\" .}}{{.}}{{end}}{{end}}",
			"{{define \"a\"}}1{{end}}{{define \"a\"}}2{{end}}{{template \"a\"}}",
			"{{define \"Repost\"}}shadow{{end}}",
			"{{.ExportWithString \"[{{.Version}}]\"}}",
			"{{.ExportWithString \"{{\"}}",
			"{{.ExportWithString}}",
			"{{.BaseReport.ExportWithString \"x\"}}",
		}).Draw(t, "nesting")
	case 15: // invalid structure
		return rapid.SampledFrom([]string{"{{", "}}{{", "{{end}}", "{{else}}", "{{if}}", "{{if .Vector}}", "{{range}}", "{{template \"missing\"}}", "{{define \"a\"}}", "{{ .Vector", "{{.Vector}", "{{\"unterminated}}", "{{break}}", "{{$}}", "{{.Vector}}{{end}}", "{{with}}{{end}}",
			// calls of templates this text does not define (another export may have defined them)
			"{{template \"a\" .}}", "{{template \"b\" .Vector}}", "{{template \"row\" .AVName}}", "{{template \"blk\" .}}", "{{template \"x\"}}"}).Draw(t, "badstruct")
	default:
		return open + fieldRef(t, level) + cls
	}
}

// Body draws a template body: literals interleaved with actions.
func Body(t *rapid.T, level spec.Level, depth int, defs *[]string) string {
	var b strings.Builder
	n := rapid.IntRange(0, 4).Draw(t, "nparts")
	for i := 0; i < n; i++ {
		b.WriteString(literal(t))
		b.WriteString(action(t, level, depth, defs))
	}
	b.WriteString(literal(t))
	return b.String()
}

// Template draws a template text for a report of the given level. simple=true restricts
// it to literals and plain field references (the domain of the independent oracle).
func templateCore(t *rapid.T, level spec.Level) string {
	if rapid.IntRange(0, 4).Draw(t, "simple") == 0 {
		var b strings.Builder
		n := rapid.IntRange(0, 8).Draw(t, "nparts")
		for i := 0; i < n; i++ {
			b.WriteString(literal(t))
			f := fieldRef(t, level)
			if rapid.Bool().Draw(t, "spaces") {
				b.WriteString("{{ " + f + " }}")
			} else {
				b.WriteString("{{" + f + "}}")
			}
		}
		b.WriteString(literal(t))
		return b.String()
	}
	var defs []string
	body := Body(t, level, rapid.IntRange(0, 2).Draw(t, "depth"), &defs)
	if rapid.IntRange(0, 24).Draw(t, "long") == 0 { // long templates: buffer and size boundaries of readers
		n := rapid.SampledFrom([]int{511, 512, 513, 4095, 4096, 4097, 8192, 32768, 65535, 65536, 65537, 100000, 1<<20 + 1}).Draw(t, "padlen")
		pad := strings.Repeat(rapid.SampledFrom([]string{"x", "ab\n", "é"}).Draw(t, "padunit"), n)
		if rapid.Bool().Draw(t, "padfront") {
			return pad[:n] + body
		}
		return body + pad[:n] + "{{.Version}}"
	}
	return body
}

// edgeTexts: what files and transports put at the two ends of a text — byte order marks,
// blank lines, CR LF, NUL, invisible characters, a shebang or XML declaration. text/template
// copies them to the output unchanged, so must the library.
var edgeTexts = []string{"\ufeff", "\ufeff\ufeff", "\ufffe", " ", "\n", "\r\n", "\n\n", "\t", "\x00", "\u200b", "\u00a0", "\u2028", "#!tpl\n", "<?xml version=\"1.0\"?>\n", "\xef\xbb", "\xff\xfe", "\x1a"}

// Template draws a template text: the core grammar, one time in six with an edge text in
// front of it, behind it, or both.
func Template(t *rapid.T, level spec.Level) string {
	core := templateCore(t, level)
	switch rapid.IntRange(0, 17).Draw(t, "edges") {
	case 0:
		return rapid.SampledFrom(edgeTexts).Draw(t, "lead") + core
	case 1:
		return core + rapid.SampledFrom(edgeTexts).Draw(t, "trail")
	case 2:
		return rapid.SampledFrom(edgeTexts).Draw(t, "lead") + core + rapid.SampledFrom(edgeTexts).Draw(t, "trail")
	}
	return core
}
