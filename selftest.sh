#!/bin/bash
# Sensitivity self-test: every patch mutants/<ID>-<name>.diff is applied to a scratch copy
# of /repo (outside /repo and /verif, removed afterwards); the mutant must compile and pass
# the repository's own tests, and the owning check (<ID>, quick tier unless a second
# argument says otherwise) must report a VIOLATION.
# usage: selftest.sh [pattern] [tier]      e.g.  selftest.sh 'C03-*' quick
set -u
cd "$(dirname "$0")"; VD=$PWD
export GOFLAGS=-mod=mod GOPROXY=off GOSUMDB=off GOTOOLCHAIN=local
pat=${1:-*}
tier=${2:-quick}
scratch=$(mktemp -d /tmp/verif-selftest.XXXXXX)
trap 'rm -rf "$scratch"' EXIT
pass=0; fail=0; report=""
for m in mutants/$pat.diff; do
  [ -f "$m" ] || continue
  name=$(basename "$m" .diff); id=${name%%-*}
  rm -rf "$scratch/repo"; mkdir -p "$scratch/repo"
  (cd /repo && git ls-files -z | xargs -0 cp --parents -t "$scratch/repo")
  if ! (cd "$scratch/repo" && patch -p1 -s < "$VD/$m"); then report+="$name: PATCH-FAILED"$'\n'; fail=$((fail+1)); continue; fi
  if ! (cd "$scratch/repo" && go build ./... && go test -vet=off -count=1 ./... >"$scratch/base.log" 2>&1); then
    report+="$name: INVALID-MUTANT (baseline tests fail or no build): $(grep -m2 -E "^(---|#|.*\.go:[0-9]+)" "$scratch/base.log" | tr "\n" " " | cut -c1-200)"$'\n'; fail=$((fail+1)); continue; fi
  rm -rf .cache/selftest-replay
  out=$(./check "$id" "$tier" --repo "$scratch/repo" 2>&1); code=$?
  if [ $code -eq 1 ] && grep -q "^VIOLATION property=$id" <<<"$out"; then
    pass=$((pass+1)); report+="$name: caught ($(grep -m1 -A1 '^VIOLATION' <<<"$out" | tail -1 | sed 's/^ *//' | cut -c1-110))"$'\n'
  else
    fail=$((fail+1)); report+="$name: MISSED (exit $code)"$'\n'
  fi
done
rm -rf .cache/selftest-replay
echo "$report"
echo "selftest: caught=$pass not-caught-or-invalid=$fail"
[ $fail -eq 0 ]
